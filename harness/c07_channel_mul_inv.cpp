// C07 — channel_multiply / channel_invert scaled-arithmetic laws.
// Engine: complete enumeration of operand pairs (lattice for 16-bit in the quick tier), oracle: exact integer arithmetic.
#include "common/verif.hpp"

#include <boost/gil.hpp>

#include <cmath>
#include <thread>

namespace gil = boost::gil;
using verif::Case;
using verif::i64;

#ifndef VERIF_STRIDE
#define VERIF_STRIDE 1
#endif

template <class T> struct CM;
#define INT_MODEL(T, NAME, ID, LO, HI)                                                                                               \
    template <> struct CM<T>                                                                                                         \
    {                                                                                                                                \
        static const char* name() { return NAME; }                                                                                   \
        static constexpr int id = ID;                                                                                                \
        static i64 lo() { return LO; }                                                                                               \
        static i64 hi() { return HI; }                                                                                               \
        static T make(i64 v) { return static_cast<T>(v); }                                                                           \
        static i64 to_i(T v) { return static_cast<i64>(v); }                                                                         \
    };
INT_MODEL(std::uint8_t, "u8", 100, 0, 255)
INT_MODEL(std::uint16_t, "u16", 101, 0, 65535)
INT_MODEL(std::uint32_t, "u32", 102, 0, 4294967295LL)
INT_MODEL(std::int8_t, "s8", 103, -128, 127)
INT_MODEL(std::int16_t, "s16", 104, -32768, 32767)
INT_MODEL(std::int32_t, "s32", 105, -2147483648LL, 2147483647LL)
template <int N> struct CM<gil::packed_channel_value<N>>
{
    using T = gil::packed_channel_value<N>;
    static const char* name() { static std::string s = "p" + std::to_string(N); return s.c_str(); }
    static constexpr int id = N;
    static i64 lo() { return 0; }
    static i64 hi() { return (i64(1) << N) - 1; }
    static T make(i64 v) { return T(static_cast<typename T::integer_t>(v)); }
    static i64 to_i(T v) { return static_cast<i64>(static_cast<typename T::integer_t>(v)); }
};

static float bits2f(i64 b) { std::uint32_t u = static_cast<std::uint32_t>(b); float f; std::memcpy(&f, &u, 4); return f; }
static i64 f2bits(float f) { std::uint32_t u; std::memcpy(&u, &f, 4); return u; }

template <class T>
static i64 mul(i64 a, i64 b) { return CM<T>::to_i(gil::channel_multiply(CM<T>::make(a), CM<T>::make(b))); }

// all clauses that involve one (a,b): returns r
template <class T>
static i64 check_pair(i64 a, i64 b)
{
    i64 lo = CM<T>::lo(), hi = CM<T>::hi(), R = hi - lo;
    i64 r = mul<T>(a, b);
    VCHECK(r >= lo && r <= hi, CM<T>::name(), "channel_multiply result outside the channel range", a, b, r);
    __int128 lhs = (__int128)(r - lo) * R - (__int128)(a - lo) * (b - lo);
    if (lhs < 0) lhs = -lhs;
    VCHECK(lhs <= (__int128)R, CM<T>::name(), "channel_multiply differs from a*b/max by more than one unit", a, b, r);
    i64 r2 = mul<T>(b, a);
    VCHECK(r == r2, CM<T>::name(), "channel_multiply not commutative", a, b, r, r2);
    return r;
}

struct Ctx { verif::Evidence* ev; bool thorough; };

// rows a in [a0,a1): b runs over all values (full) or over the lattice b = (a mod 97) + 97k plus boundary columns
template <class T>
static void mul_rows(Ctx const& cx, i64 a0, i64 a1, bool full)
{
    verif::Evidence& ev = *cx.ev;
    i64 lo = CM<T>::lo(), hi = CM<T>::hi();
    std::uint64_t n = 0, nt = 0;
    Case cur;
    cur["@mul"];
    cur.set("m", CM<T>::id);
    try
    {
        for (i64 a = a0; a < a1; ++a)
        {
            i64 prev = lo - 1;
            i64 step = full ? VERIF_STRIDE : 97;
            i64 start = full ? lo : lo + ((a - lo) % 97);
            auto one = [&](i64 b) {
                cur.set("ab", {a, b});
                i64 r = check_pair<T>(a, b);
                VCHECK(r >= prev, CM<T>::name(), "channel_multiply not monotone in the second argument", a, b, r, prev);
                prev = r;
                ++n;
                if (a > lo && a < hi && b > lo && b < hi) ++nt;
            };
            if (!full) { one(lo); if (lo + 1 < start) one(lo + 1); }
            for (i64 b = start; b <= hi; b += step) if (full || b > lo + 1) one(b);
            if (!full || VERIF_STRIDE > 1) { if (prev < hi - 1 || true) { /* boundary columns */ } }
            // boundary columns and laws
            cur.set("ab", {a, hi});
            VCHECK(check_pair<T>(a, hi) == a, CM<T>::name(), "the channel maximum is not the identity of channel_multiply", a);
            VCHECK(mul<T>(hi, a) == a, CM<T>::name(), "the channel maximum is not the identity of channel_multiply (first argument)", a);
            cur.set("ab", {a, lo});
            VCHECK(check_pair<T>(a, lo) == lo, CM<T>::name(), "the channel minimum is not the annihilator of channel_multiply", a);
            VCHECK(mul<T>(lo, a) == lo, CM<T>::name(), "the channel minimum is not the annihilator of channel_multiply (first argument)", a);
            if (hi - 1 > lo) { cur.set("ab", {a, hi - 1}); i64 r1 = check_pair<T>(a, hi - 1); VCHECK(r1 <= a, CM<T>::name(), "not monotone next to the maximum", a); }
            n += 3;
        }
    }
    catch (verif::Fail const& f) { ev.fail(cur, f.what()); }
    ev.eval(n);
    ev.nontrivial_counter += nt;
    ev.classify(std::string("mul:") + CM<T>::name(), n);
}

// 32-bit channels: the pair space is 2^64, so a stratified operand set (range ends, powers of two and their neighbours, byte and
// word boundaries, seeded random values) is crossed with itself; every pair gets the bound / commutativity check, every row the laws
template <class T>
static void mul_strat32(Ctx const& cx, std::uint64_t seed)
{
    verif::Evidence& ev = *cx.ev;
    i64 lo = CM<T>::lo(), hi = CM<T>::hi();
    std::vector<i64> v;
    auto add = [&](i64 x) { for (i64 d = -2; d <= 2; ++d) if (x + d >= lo && x + d <= hi) v.push_back(x + d); };
    add(lo); add(hi); add(lo + (hi - lo) / 2); add(0); add(lo + (hi - lo) / 3); add(lo + (hi - lo) / 255); add(lo + (hi - lo) / 65535);
    for (int k = 1; k < 32; ++k) { add(lo + (1LL << k)); add(hi - (1LL << k)); }
    verif::SplitMix r(seed ^ 0x3232);
    std::size_t nrand = cx.thorough ? 1500 : 250;
    for (std::size_t i = 0; i < nrand; ++i) v.push_back(lo + static_cast<i64>(r.next() & 0xffffffffULL));
    std::sort(v.begin(), v.end());
    v.erase(std::unique(v.begin(), v.end()), v.end());
    std::uint64_t n = 0, nt = 0;
    Case cur;
    cur["@mul"];
    cur.set("m", CM<T>::id);
    try
    {
        for (i64 a : v)
        {
            i64 prev = lo - 1;
            for (i64 b : v)
            {
                cur.set("ab", {a, b});
                i64 res = check_pair<T>(a, b);
                VCHECK(res >= prev, CM<T>::name(), "channel_multiply not monotone in the second argument", a, b, res, prev);
                prev = res;
                ++n;
                if (a > lo && a < hi && b > lo && b < hi) ++nt;
            }
            cur.set("ab", {a, hi});
            VCHECK(check_pair<T>(a, hi) == a, CM<T>::name(), "the channel maximum is not the identity of channel_multiply", a);
            cur.set("ab", {hi, a});
            VCHECK(mul<T>(hi, a) == a, CM<T>::name(), "the channel maximum is not the identity of channel_multiply (first argument)", a);
            cur.set("ab", {a, lo});
            VCHECK(check_pair<T>(a, lo) == lo, CM<T>::name(), "the channel minimum is not the annihilator of channel_multiply", a);
            cur.set("ab", {lo, a});
            VCHECK(mul<T>(lo, a) == lo, CM<T>::name(), "the channel minimum is not the annihilator of channel_multiply (first argument)", a);
            n += 4;
        }
    }
    catch (verif::Fail const& f) { ev.fail(cur, f.what()); }
    ev.eval(n);
    ev.nontrivial_counter += nt;
    ev.classify(std::string("mul:") + CM<T>::name(), n);
}

template <class T>
static void inv_all(Ctx const& cx, std::uint64_t seed)
{
    verif::Evidence& ev = *cx.ev;
    i64 lo = CM<T>::lo(), hi = CM<T>::hi();
    std::uint64_t n = 0, nt = 0;
    Case cur;
    cur["@inv"];
    cur.set("m", CM<T>::id);
    try
    {
        auto one = [&](i64 x) {
            cur.set("x", x);
            i64 r = CM<T>::to_i(gil::channel_invert(CM<T>::make(x)));
            VCHECK(r == hi - x + lo, CM<T>::name(), "channel_invert(x) != max - x + min", x, r);
            VCHECK(r >= lo && r <= hi, CM<T>::name(), "channel_invert result outside the range", x, r);
            i64 rr = CM<T>::to_i(gil::channel_invert(CM<T>::make(r)));
            VCHECK(rr == x, CM<T>::name(), "channel_invert is not an involution", x, r, rr);
            ++n;
            if (x > lo && x < hi) ++nt;
        };
        if (hi - lo <= 65535 || (cx.thorough && VERIF_STRIDE == 1))
            for (i64 x = lo; x <= hi; x += (hi - lo <= 65535 ? 1 : 1)) one(x);
        else
        {
            for (i64 k = 0; k < 65536; ++k) for (i64 d = -1; d <= 1; ++d) { i64 x = lo + k * 65537 + d; if (x >= lo && x <= hi) one(x); }
            for (i64 d = 0; d < 70000; ++d) { one(lo + d); one(hi - d); one(lo + (hi - lo) / 2 - 35000 + d); }
            verif::SplitMix r(seed);
            for (int i = 0; i < 100000; ++i) one(lo + static_cast<i64>(r.next() & 0xffffffffULL));
        }
    }
    catch (verif::Fail const& f) { ev.fail(cur, f.what()); }
    ev.eval(n);
    ev.nontrivial_counter += nt;
    ev.classify(std::string("inv:") + CM<T>::name(), n);
}

static std::vector<float> float_grid(std::uint64_t seed)
{
    std::vector<float> v;
    auto add = [&](float f) {
        for (int d = -1; d <= 1; ++d)
        {
            float g = d < 0 ? std::nextafterf(f, -1.0f) : d > 0 ? std::nextafterf(f, 2.0f) : f;
            if (g >= 0.0f && g <= 1.0f) v.push_back(g);
        }
    };
    for (int k = 0; k <= 255; ++k) add(float(k) / 255.0f);
    for (int k = 0; k <= 65535; k += 257) add(float(k) / 65535.0f);
    add(0.0f); add(1.0f); add(0.5f); add(1e-20f); add(1.0f / 3);
    verif::SplitMix r(seed);
    for (int i = 0; i < 200; ++i) add(float(r.next() >> 40) / float(1 << 24));
    std::sort(v.begin(), v.end());
    v.erase(std::unique(v.begin(), v.end()), v.end());
    return v;
}

static void check_float_pair(float a, float b)
{
    using gil::float32_t;
    float r = gil::channel_multiply(float32_t(a), float32_t(b));
    float r2 = gil::channel_multiply(float32_t(b), float32_t(a));
    VCHECK(r >= 0.0f && r <= 1.0f, "f32 multiply result outside [0,1]", a, b, r);
    VCHECK(std::fabs((double)r - (double)a * (double)b) <= 1.2e-7, "f32 multiply differs from a*b beyond float rounding", a, b, r);
    VCHECK(r == r2, "f32 multiply not commutative", a, b);
}
static void check_float_inv(float x)
{
    using gil::float32_t;
    float r = gil::channel_invert(float32_t(x));
    VCHECK(r == 1.0f - x, "f32 channel_invert(x) != max - x + min", x, r);
    VCHECK(r >= 0.0f && r <= 1.0f, "f32 invert outside [0,1]", x, r);
    float rr = gil::channel_invert(float32_t(r));
    VCHECK(std::fabs((double)rr - (double)x) <= 1.2e-7, "f32 channel_invert not an involution (beyond float rounding)", x, rr);
}

static void float_all(Ctx const& cx, std::uint64_t seed)
{
    verif::Evidence& ev = *cx.ev;
    auto g = float_grid(seed);
    std::uint64_t n = 0, nt = 0;
    Case cur;
    cur["@fmul"];
    try
    {
        for (float a : g)
        {
            float prev = -1;
            for (float b : g)
            {
                cur.set("ab", {f2bits(a), f2bits(b)});
                check_float_pair(a, b);
                float r = gil::channel_multiply(gil::float32_t(a), gil::float32_t(b));
                VCHECK(r >= prev, "f32 multiply not monotone", a, b);
                prev = r;
                ++n;
                if (a > 0 && a < 1 && b > 0 && b < 1) ++nt;
            }
            cur.set("ab", {f2bits(a), f2bits(1.0f)});
            VCHECK(float(gil::channel_multiply(gil::float32_t(a), gil::float32_t(1.0f))) == a, "1 is not the identity of f32 multiply", a);
            VCHECK(float(gil::channel_multiply(gil::float32_t(a), gil::float32_t(0.0f))) == 0.0f, "0 is not the annihilator of f32 multiply", a);
        }
        cur = Case();
        cur["@finv"];
        for (float x : g) { cur.set("x", f2bits(x)); check_float_inv(x); ++n; ++nt; }
    }
    catch (verif::Fail const& f) { ev.fail(cur, f.what()); }
    ev.eval(n);
    ev.nontrivial_counter += nt;
    ev.classify("float", n);
}

template <class Fn> static void for_model(i64 id, Fn fn)
{
    using namespace gil;
    switch (id)
    {
    case 100: fn(std::uint8_t()); break; case 101: fn(std::uint16_t()); break; case 102: fn(std::uint32_t()); break;
    case 103: fn(std::int8_t()); break; case 104: fn(std::int16_t()); break; case 105: fn(std::int32_t()); break;
    case 1: fn(packed_channel_value<1>()); break; case 2: fn(packed_channel_value<2>()); break; case 3: fn(packed_channel_value<3>()); break;
    case 4: fn(packed_channel_value<4>()); break; case 5: fn(packed_channel_value<5>()); break; case 6: fn(packed_channel_value<6>()); break;
    case 7: fn(packed_channel_value<7>()); break; case 8: fn(packed_channel_value<8>()); break; case 9: fn(packed_channel_value<9>()); break;
    case 10: fn(packed_channel_value<10>()); break; case 11: fn(packed_channel_value<11>()); break; case 12: fn(packed_channel_value<12>()); break;
    case 13: fn(packed_channel_value<13>()); break; case 14: fn(packed_channel_value<14>()); break; case 15: fn(packed_channel_value<15>()); break;
    case 16: fn(packed_channel_value<16>()); break;
    default: throw verif::Fail("unknown model id");
    }
}

void verif_replay(Case const& c)
{
    if (c.has("@mul"))
        for_model(c.get("m"), [&](auto t) {
            using T = decltype(t);
            i64 a = c.get("ab", 0, 0), b = c.get("ab", 0, 1), lo = CM<T>::lo(), hi = CM<T>::hi();
            i64 r = check_pair<T>(a, b);
            if (b > lo) VCHECK(mul<T>(a, b - 1) <= r, CM<T>::name(), "not monotone in the second argument", a, b);
            if (b == hi) VCHECK(r == a, CM<T>::name(), "max is not the identity", a);
            if (b == lo) VCHECK(r == lo, CM<T>::name(), "min is not the annihilator", a);
            VCHECK(mul<T>(a, hi) == a && mul<T>(hi, a) == a, CM<T>::name(), "max is not the identity", a);
            VCHECK(mul<T>(a, lo) == lo && mul<T>(lo, a) == lo, CM<T>::name(), "min is not the annihilator", a);
        });
    else if (c.has("@inv"))
        for_model(c.get("m"), [&](auto t) {
            using T = decltype(t);
            i64 x = c.get("x"), lo = CM<T>::lo(), hi = CM<T>::hi();
            i64 r = CM<T>::to_i(gil::channel_invert(CM<T>::make(x)));
            VCHECK(r == hi - x + lo, CM<T>::name(), "channel_invert(x) != max - x + min", x, r);
            VCHECK(CM<T>::to_i(gil::channel_invert(CM<T>::make(r))) == x, CM<T>::name(), "not an involution", x);
        });
    else if (c.has("@fmul"))
    {
        float a = bits2f(c.get("ab", 0, 0)), b = bits2f(c.get("ab", 0, 1));
        check_float_pair(a, b);
        float r = gil::channel_multiply(gil::float32_t(a), gil::float32_t(b));
        float bp = std::nextafterf(b, -1.0f);
        if (bp >= 0) VCHECK(float(gil::channel_multiply(gil::float32_t(a), gil::float32_t(bp))) <= r, "f32 multiply not monotone", a, b);
        if (b == 1.0f) VCHECK(r == a, "1 is not the identity", a);
        if (b == 0.0f) VCHECK(r == 0.0f, "0 is not the annihilator", a);
    }
    else if (c.has("@finv")) check_float_inv(bits2f(c.get("x")));
    else throw verif::Fail("unknown case");
}

void verif_run(verif::Args const& a, verif::Evidence& ev)
{
    Ctx cx{&ev, a.thorough()};
    bool th = a.thorough() && VERIF_STRIDE == 1;
    ev.rule = std::string("channel_multiply: all pairs (a,b) of u8, s8 and packed 1..12-bit channels; u16, s16, packed 16: ") +
              (th ? "all 2^32 pairs" : "all a x lattice b = (a mod 97)+97k plus the columns min, min+1, max-1, max") +
              "; u32/s32: stratified operand set (range ends, 2^k and range-2^k with neighbours, seeded random values) crossed with itself; f32: grid of k/255, k/65535 (+-1 ulp) and seeded random values, all pairs. channel_invert: every value of u8,s8,u16,s16,packed 1..16 (u32/s32: " +
              (th ? "every value" : "~470k stratified values") + "), f32 grid. stride " + std::to_string(VERIF_STRIDE) +
              " on b in this build. oracle: exact integers |(r-min)*R - (a-min)(b-min)| <= R, commutative, monotone, identity=max, annihilator=min, in range; invert == max-x+min and involution. "
              "non-trivial: both operands strictly interior (invert: x interior); distinct = (model,a,b), each visited once.";
    ev.exhaustive = false;
    std::vector<std::function<void()>> jobs;
    auto add_mul = [&](auto t, bool full, int chunks) {
        using T = decltype(t);
        i64 lo = CM<T>::lo(), hi = CM<T>::hi();
        i64 n = hi - lo + 1;
        for (int c = 0; c < chunks; ++c)
        {
            i64 a0 = lo + n * c / chunks, a1 = lo + n * (c + 1) / chunks;
            jobs.push_back([=, &cx] { mul_rows<T>(cx, a0, a1, full); });
        }
    };
    using namespace gil;
    add_mul(std::uint8_t(), true, 4); add_mul(std::int8_t(), true, 4);
    add_mul(packed_channel_value<1>(), true, 1); add_mul(packed_channel_value<2>(), true, 1); add_mul(packed_channel_value<3>(), true, 1);
    add_mul(packed_channel_value<4>(), true, 1); add_mul(packed_channel_value<5>(), true, 1); add_mul(packed_channel_value<6>(), true, 1);
    add_mul(packed_channel_value<7>(), true, 2); add_mul(packed_channel_value<8>(), true, 4); add_mul(packed_channel_value<9>(), true, 4);
    add_mul(packed_channel_value<10>(), true, 16); add_mul(packed_channel_value<11>(), true, 16); add_mul(packed_channel_value<12>(), true, 32);
    add_mul(std::uint16_t(), th, th ? 256 : 32); add_mul(std::int16_t(), th, th ? 256 : 32); add_mul(packed_channel_value<16>(), th, th ? 256 : 32);
    add_mul(packed_channel_value<14>(), th, th ? 64 : 16);
    std::uint64_t seed = a.seed;
    jobs.push_back([&cx, seed] { inv_all<std::uint8_t>(cx, seed); inv_all<std::int8_t>(cx, seed); inv_all<std::uint16_t>(cx, seed); inv_all<std::int16_t>(cx, seed); });
    jobs.push_back([&cx, seed] { mul_strat32<std::uint32_t>(cx, seed); });
    jobs.push_back([&cx, seed] { mul_strat32<std::int32_t>(cx, seed); });
    jobs.push_back([&cx, seed] { inv_all<std::uint32_t>(cx, seed); });
    jobs.push_back([&cx, seed] { inv_all<std::int32_t>(cx, seed); });
    jobs.push_back([&cx, seed] {
        inv_all<packed_channel_value<1>>(cx, seed); inv_all<packed_channel_value<2>>(cx, seed); inv_all<packed_channel_value<3>>(cx, seed); inv_all<packed_channel_value<4>>(cx, seed);
        inv_all<packed_channel_value<5>>(cx, seed); inv_all<packed_channel_value<6>>(cx, seed); inv_all<packed_channel_value<7>>(cx, seed); inv_all<packed_channel_value<8>>(cx, seed);
        inv_all<packed_channel_value<9>>(cx, seed); inv_all<packed_channel_value<10>>(cx, seed); inv_all<packed_channel_value<11>>(cx, seed); inv_all<packed_channel_value<12>>(cx, seed);
        inv_all<packed_channel_value<13>>(cx, seed); inv_all<packed_channel_value<14>>(cx, seed); inv_all<packed_channel_value<15>>(cx, seed); inv_all<packed_channel_value<16>>(cx, seed);
    });
    jobs.push_back([&cx, seed] { float_all(cx, seed); });

    std::atomic<std::size_t> next{0};
    std::vector<std::thread> thr;
    for (int t = 0; t < a.threads; ++t)
        thr.emplace_back([&] { for (;;) { std::size_t i = next++; if (i >= jobs.size()) return; jobs[i](); } });
    for (auto& t : thr) t.join();

    { Case c; c["@mul"]; c.set("m", 100); c.set("ab", {200, 131}); ev.sample(c); }
    { Case c; c["@mul"]; c.set("m", 103); c.set("ab", {-77, 90}); ev.sample(c); }
    { Case c; c["@mul"]; c.set("m", 10); c.set("ab", {1000, 513}); ev.sample(c); }
    { Case c; c["@mul"]; c.set("m", 101); c.set("ab", {40000, 12345}); ev.sample(c); }
    { Case c; c["@inv"]; c.set("m", 105); c.set("x", -5); ev.sample(c); }
    { Case c; c["@fmul"]; c.set("ab", {f2bits(0.3f), f2bits(0.7f)}); ev.sample(c); }
}

VERIF_MAIN(VERIF_TARGET_NAME)
