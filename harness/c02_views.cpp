// C02 — view transformations are exact, copy-free coordinate remappings.
// Engine: rapidcheck-generated (configuration, shape, root kind, view program, tail, write) cases;
// oracle: affine coordinate model written from the documented formulas, identity-tagged root pixels,
// shallow-write diff of the whole root, algebraic identities.
#include "common/rcx.hpp"
#include "common/viewlab.hpp"

using namespace vl;
namespace gil = boost::gil;

enum Tail { T_NONE = 0, T_NTH = 1, T_CC_GRAY8 = 2, T_CC_RGB8 = 3, T_KTH0 = 4, T_CC_NTH = 5 };

struct Ctx
{
    Case const* c;
    std::uint64_t seed;
    RootInfo info;
    i64 rw, rh;
};

template <class RootV> static void expect_root_intact(RootV const& root, std::uint64_t seed, i64 ex, i64 ey, int ek, double evalue)
{
    for (i64 y = 0; y < root.height(); ++y)
        for (i64 x = 0; x < root.width(); ++x)
        {
            auto&& p = root(x, y);
            for (int k = 0; k < nchan<typename RootV::value_type>(); ++k)
            {
                double want = (x == ex && y == ey && k == ek) ? evalue : tag_for(p, seed, x, y, k);
                VCHECK(get_ch(p, k) == want, "root pixel changed (or target not written) after a write through the derived view: root", x, y, "channel", k, "has", get_ch(p, k), "want", want,
                       "target", ex, ey, ek);
            }
        }
}

// pixel-wise comparison of a derived view with the model
template <class V, class RootV> static void check_mapping(V const& v, Model const& m, RootV const& root, std::uint64_t seed)
{
    VCHECK(v.width() == m.w && v.height() == m.h, "derived view has dimensions", v.width(), v.height(), "model says", m.w, m.h);
    VCHECK(static_cast<i64>(v.size()) == m.w * m.h, "size() differs from w*h");
    for (i64 y = 0; y < m.h; ++y)
        for (i64 x = 0; x < m.w; ++x)
        {
            i64 rx, ry;
            m.root(x, y, rx, ry);
            VCHECK(rx >= 0 && rx < root.width() && ry >= 0 && ry < root.height(), "model bug: root coordinate out of range", rx, ry);
            auto&& rp = root(rx, ry);
            auto&& p = v(x, y);
            if (m.chan >= 0)
                VCHECK(get_ch(p, 0) == tag_for(rp, seed, rx, ry, m.chan), "channel view pixel", x, y, "is", get_ch(p, 0), "but source pixel", rx, ry, "channel", m.chan, "is", tag_for(rp, seed, rx, ry, m.chan));
            else
                for (int k = 0; k < nchan<typename RootV::value_type>(); ++k)
                    VCHECK(get_ch(p, k) == tag_for(rp, seed, rx, ry, k), "derived pixel", x, y, "channel", k, "is", get_ch(p, k), "but source pixel", rx, ry, "has", tag_for(rp, seed, rx, ry, k));
        }
}

template <class V, class RootV> static void check_write(V const& v, Model const& m, RootV const& root, Ctx const& cx)
{
    if (m.w == 0 || m.h == 0) return;
    Case const& c = *cx.c;
    i64 x = c.get("wr", 0, 0) % m.w, y = c.get("wr", 0, 1) % m.h;
    int nk = m.chan >= 0 ? 1 : nchan<typename RootV::value_type>();
    int k = static_cast<int>(c.get("wr", 0, 2) % nk);
    i64 rx, ry;
    m.root(x, y, rx, ry);
    int rk = m.chan >= 0 ? m.chan : k;
    auto&& rp = root(rx, ry);
    double lo = ch_lo(rp, rk), hi = ch_hi(rp, rk), old = get_ch(rp, rk);
    double nv = tag_in_range(static_cast<std::uint64_t>(c.get("wr", 0, 3)) * 2654435761ULL + 11, lo, hi, ch_is_float(rp, rk));
    if (nv == old) nv = (old == lo) ? hi : lo;
    // snapshot of the caller-supplied buffer, when there is one
    std::vector<unsigned char> before;
    if (cx.info.base) before.assign(cx.info.base, cx.info.base + cx.info.size);
    set_ch(v(x, y), k, nv);
    VCHECK(get_ch(v(x, y), k) == nv, "value written through the derived view does not read back", x, y, k);
    expect_root_intact(root, cx.seed, rx, ry, rk, nv);
    if (cx.info.base)
    {
        std::size_t changed = 0, first = 0, last = 0;
        for (std::size_t i = 0; i < cx.info.size; ++i)
            if (before[i] != cx.info.base[i]) { if (!changed) first = i; last = i; ++changed; }
        VCHECK(changed >= 1, "write did not change the buffer");
        VCHECK(last - first + 1 <= 9, "write through a derived view changed bytes", first, "..", last, "of the root buffer: more than one channel's worth");
    }
    // restore
    set_ch(v(x, y), k, old);
}

template <class A, class B> static void same_view(A const& a, B const& b, const char* what)
{
    VCHECK(a.dimensions() == b.dimensions(), what, "dimensions differ");
    for (i64 y = 0; y < a.height(); ++y)
        for (i64 x = 0; x < a.width(); ++x)
        {
            auto&& p = a(x, y);
            auto&& q = b(x, y);
            for (int k = 0; k < nchan<typename A::value_type>(); ++k) VCHECK(get_ch(p, k) == get_ch(q, k), what, "pixels differ at", x, y, k);
            if constexpr (std::is_lvalue_reference<typename A::reference>::value && std::is_lvalue_reference<typename B::reference>::value)
                VCHECK(static_cast<const void*>(&p) == static_cast<const void*>(&q), what, "refers to a different pixel at", x, y);
        }
}
template <class V> static void check_identities(V const& v)
{
    using namespace gil;
    same_view(flipped_up_down_view(flipped_up_down_view(v)), v, "flipUD o flipUD = id:");
    same_view(flipped_left_right_view(flipped_left_right_view(v)), v, "flipLR o flipLR = id:");
    same_view(transposed_view(transposed_view(v)), v, "transposed o transposed = id:");
    same_view(rotated90cw_view(rotated90cw_view(rotated90cw_view(rotated90cw_view(v)))), v, "rot90cw^4 = id:");
    same_view(rotated180_view(v), flipped_left_right_view(flipped_up_down_view(v)), "rot180 = flipLR o flipUD:");
    same_view(rotated90cw_view(rotated90ccw_view(v)), v, "rot90cw o rot90ccw = id:");
    same_view(rotated90cw_view(rotated90cw_view(v)), rotated180_view(v), "rot90cw^2 = rot180:");
}

template <class V, class RootV> static void check_all(V const& v, Model const& m, RootV const& root, Ctx const& cx, bool writable)
{
    check_mapping(v, m, root, cx.seed);
    check_identities(v);
    if (writable) check_write(v, m, root, cx);
    check_mapping(v, m, root, cx.seed); // restored
}

template <class Dst, class V, class RootV> static void check_cc(V const& v, Model const& m, RootV const& root, Prog const& post)
{
    auto cv = gil::color_converted_view<Dst>(v);
    Model m2 = m;
    run_ops(cv, post, 0, [&](auto const& pv) {
        VCHECK(m2.apply_all(post), "model rejected post ops");
        VCHECK(pv.width() == m2.w && pv.height() == m2.h, "colour-converted view has dimensions", pv.width(), pv.height(), "model says", m2.w, m2.h);
        for (i64 y = 0; y < m2.h; ++y)
            for (i64 x = 0; x < m2.w; ++x)
            {
                i64 rx, ry;
                m2.root(x, y, rx, ry);
                Dst e;
                gil::color_convert(root(rx, ry), e);
                Dst got = pv(x, y);
                VCHECK(got == e, "color_converted_view pixel", x, y, "differs from color_convert of source pixel", rx, ry);
            }
        check_identities(pv);
    });
}

// a channel view on top of a colour-converted view: two dereference adaptors, the outer one with state (the channel index);
// the post ops put step iterators around them
template <class V, class RootV> static void check_cc_nth(V const& v, Model const& m, RootV const& root, Prog const& post, int n)
{
    using Dst = gil::bgr8_pixel_t;
    auto nv = gil::nth_channel_view(gil::color_converted_view<Dst>(v), n);
    Model m2 = m;
    run_ops(nv, post, 0, [&](auto const& pv) {
        VCHECK(m2.apply_all(post), "model rejected post ops");
        VCHECK(pv.width() == m2.w && pv.height() == m2.h, "nth_channel_view(color_converted_view) has dimensions", pv.width(), pv.height(), "model says", m2.w, m2.h);
        for (i64 y = 0; y < m2.h; ++y)
            for (i64 x = 0; x < m2.w; ++x)
            {
                i64 rx, ry;
                m2.root(x, y, rx, ry);
                Dst e;
                gil::color_convert(root(rx, ry), e);
                typename std::decay_t<decltype(pv)>::value_type got = pv(x, y);
                VCHECK(get_ch(got, 0) == get_ch(e, n), "nth_channel_view(color_converted_view<bgr8>(v),", n, ") after the post ops: pixel", x, y, "is", get_ch(got, 0), "but channel", n, "of the converted source pixel", rx, ry, "is", get_ch(e, n));
                typename std::decay_t<decltype(pv)>::value_type viait = pv.row_begin(y)[x];
                VCHECK(get_ch(viait, 0) == get_ch(e, n), "same through row_begin(y)[x]", x, y);
            }
    });
}

static bool valid_progs(Case const& c, Model& m)
{
    m.w = c.get("w");
    m.h = c.get("h");
    if (m.w < 0 || m.h < 0 || m.w > 64 || m.h > 64) return false;
    Prog p = prog_from(c.list("prog"));
    if (!m.apply_all(p)) return false;
    Model t = m;
    Prog post = prog_from(c.list("post"));
    return t.apply_all(post);
}

static void run_case(Case const& c)
{
    Model m0;
    if (!valid_progs(c, m0)) return; // outside the domain (only reachable through driver-side shrinking)
    int cfg = static_cast<int>(c.get("cfg"));
    i64 w = c.get("w"), h = c.get("h"), ap = c.get("ap");
    int rk = static_cast<int>(c.get("rk"));
    if (ap < 0 || ap > 64 || rk < 0 || rk > 2) return;
    std::uint64_t seed = static_cast<std::uint64_t>(c.get("seed"));
    Prog prog = prog_from(c.list("prog")), post = prog_from(c.list("post"));
    int tail = static_cast<int>(c.get("tail", 0, 0)), tparam = static_cast<int>(c.get("tail", 0, 1));
    with_config_in_group(cfg, [&](auto C) {
        using Cfg = decltype(C);
        if (rk != ROOT_IMAGE && (ap > 16)) return;
        with_root<Cfg>(rk, w, h, ap, seed, [&](auto const& root, RootInfo const& info) {
            Ctx cx{&c, seed, info, w, h};
            Model m;
            m.w = root.width();
            m.h = root.height();
            if (!m.apply_all(prog)) return; // only when an empty image reported 0x0
            { Model t = m; if (!t.apply_all(post)) return; }
            run_ops(root, prog, 0, [&](auto const& v) {
                using V = std::decay_t<decltype(v)>;
                if (tail == T_NONE) { check_all(v, m, root, cx, true); return; }
                if (tail == T_NTH)
                {
                    if constexpr (Cfg::homogeneous)
                    {
                        int n = tparam % nchan<typename V::value_type>();
                        auto nv = gil::nth_channel_view(v, n);
                        Model m2 = m;
                        m2.chan = n;
                        run_ops(nv, post, 0, [&](auto const& pv) {
                            VCHECK(m2.apply_all(post), "model rejected post ops");
                            check_all(pv, m2, root, cx, true);
                        });
                    }
                    return;
                }
                if (tail == T_KTH0)
                {
                    if constexpr (Cfg::homogeneous)
                    {
                        constexpr int K = nchan<typename V::value_type>() - 1;
                        auto kv = gil::kth_channel_view<K>(v);
                        Model m2 = m;
                        m2.chan = K;
                        run_ops(kv, post, 0, [&](auto const& pv) {
                            VCHECK(m2.apply_all(post), "model rejected post ops");
                            check_all(pv, m2, root, cx, true);
                        });
                    }
                    return;
                }
                if constexpr (Cfg::has_cc)
                {
                    if (tail == T_CC_GRAY8) check_cc<gil::gray8_pixel_t>(v, m, root, post);
                    else if (tail == T_CC_RGB8) check_cc<gil::rgb8_pixel_t>(v, m, root, post);
                    else if (tail == T_CC_NTH) check_cc_nth(v, m, root, post, tparam % 3);
                }
            });
        });
    });
}

// ------------------------------------------------------------------------------------------------ generator
static Op gen_op(Model const& m, bool allow_sub)
{
    int kind = verif::weighted({10, 10, 12, 12, 12, 8, allow_sub ? 14 : 0, 14});
    Op o{kind, 0, 0, 0, 0};
    if (kind == OP_SUBIMAGE)
    {
        o.a = m.w ? verif::pick(0, m.w) : 0;
        o.b = m.h ? verif::pick(0, m.h) : 0;
        o.c = verif::pick(0, m.w - o.a);
        o.d = verif::pick(0, m.h - o.b);
        // favour non-empty
        if (m.w > 0 && o.c == 0 && verif::coin(80)) { o.a = verif::pick(0, m.w - 1); o.c = verif::pick(1, m.w - o.a); }
        if (m.h > 0 && o.d == 0 && verif::coin(80)) { o.b = verif::pick(0, m.h - 1); o.d = verif::pick(1, m.h - o.b); }
    }
    else if (kind == OP_SUBSAMPLE)
    {
        o.a = verif::pick(1, 4);
        o.b = verif::pick(1, 4);
    }
    return o;
}
static Prog gen_prog(Model& m, int maxdepth)
{
    Prog p;
    int n = static_cast<int>(verif::pick(0, maxdepth));
    for (int i = 0; i < n; ++i)
    {
        Op o = gen_op(m, true);
        if (!m.apply(o)) break;
        p.push_back(o);
    }
    return p;
}

static Case gen_case(bool thorough)
{
    Case c;
    auto cfgs = group_configs();
    int cfg = verif::one_of(cfgs);
    c.set("cfg", cfg);
    i64 N = thorough ? 12 : 8;
    i64 w, h;
    int shape = verif::weighted({70, 8, 8, 7, 7});
    if (shape == 0) { w = verif::pick(1, N); h = verif::pick(1, N); }
    else if (shape == 1) { w = 0; h = verif::pick(0, N); }
    else if (shape == 2) { h = 0; w = verif::pick(0, N); }
    else if (shape == 3) { w = 1; h = verif::pick(1, N); }
    else { h = 1; w = verif::pick(1, N); }
    if (thorough && verif::coin(5)) w = verif::one_of<i64>({17, 33, 63, 64});
    c.set("w", w);
    c.set("h", h);
    int rk = verif::weighted({50, 30, 20});
    c.set("rk", rk);
    c.set("ap", rk == ROOT_IMAGE ? verif::one_of<i64>({0, 0, 1, 2, 4, 8, 16, 32}) : verif::one_of<i64>({0, 0, 0, 1, 3, 8}));
    c.set("seed", verif::seed64());
    Model m;
    m.w = w;
    m.h = h;
    Prog p = gen_prog(m, thorough ? 4 : 3);
    c.set("prog", prog_to(p));
    int tail = verif::weighted({46, 16, 9, 9, 10, 10});
    c.set("tail", {tail, verif::pick(0, 4)});
    Prog post;
    if (tail != T_NONE) post = gen_prog(m, 2);
    c.set("post", prog_to(post));
    c.set("wr", {verif::pick(0, 63), verif::pick(0, 63), verif::pick(0, 7), verif::pick(0, 1 << 20)});
    return c;
}

static bool nontrivial(Case const& c)
{
    if (c.get("w") < 2 || c.get("h") < 2 || c.get("w") == c.get("h")) return false;
    Prog p = prog_from(c.list("prog"));
    Prog q = prog_from(c.list("post"));
    p.insert(p.end(), q.begin(), q.end());
    if (p.size() < 2) return false;
    for (auto const& o : p)
        if (o.kind == OP_TRANSPOSE || o.kind == OP_ROT90CW || o.kind == OP_ROT90CCW || o.kind == OP_SUBSAMPLE) return true;
    return false;
}

void verif_replay(Case const& c) { run_case(c); }

void verif_run(verif::Args const& a, verif::Evidence& ev)
{
    bool th = a.thorough();
    ev.rule = "rapidcheck cases = (configuration from the group's share of 28 image types, root = image with alignment in {0,1,2,4,8,16,32} or exact-size buffer between guard pages, "
              "w,h in 0..8 (12 thorough, occasionally 17/33/63/64) with degenerate shapes weighted in, program of up to 3 (4) ops from flipUD/LR, transpose, rot90cw/ccw, rot180, subimage, subsample(1..4), "
              "tail in {none, nth_channel, kth_channel, color_converted<gray8>, color_converted<rgb8>, nth_channel of color_converted<bgr8>} + up to 2 post ops, one write). oracle: dimensions and EVERY pixel against the affine model over identity tags, "
              "shallow write leaves every other root pixel/channel and the root buffer untouched, 7 algebraic identities pixel- and address-wise. "
              "non-trivial: root non-square with both dims >= 2, >= 2 ops, at least one transposing or sub-sampling op; distinct = (cfg, root kind, shape, program, tail, post).";
    int cases = th ? 1200000 : 25000;
    verif::rc_search(ev, a, "views", cases, 60, [&] { return gen_case(th); }, run_case, nontrivial, {"cfg", "rk", "w", "h", "prog", "tail", "post"});
    for (int cfg : group_configs()) ev.classify(std::string("cfg_in_group:") + cfg_name(cfg));
}

VERIF_MAIN(VERIF_TARGET_NAME)
