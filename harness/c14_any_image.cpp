// C14: run-time typed images behave exactly like the concrete image they hold.
//
// Differential, alternative by alternative: every operation is performed on the any_image / any_image_view and on the concrete
// image / view it holds (mp_with_index over the type list), and the two results must be the same: same alternative index, same
// dimensions, and every pixel of the resulting view designates the same memory (shallow views) or has the same value (converting views).
// Binary algorithms run over every ordered pair of alternatives; compatibility is decided by a table written from the documentation
// (same colour space and channel types, any layout), incompatible pairs must throw std::bad_cast and leave the destination root intact.
#include "common/rcx.hpp"
#include "common/viewlab.hpp"

#include <boost/gil/extension/dynamic_image/dynamic_image_all.hpp>
#include <boost/gil/extension/numeric/resample.hpp>
#include <boost/gil/extension/numeric/sampler.hpp>

#include <typeinfo>

// build parts (-DC14_PART): 0 = transform; 1..6 = pair (type lists x algorithm group); 7 = value; default: everything
#ifndef C14_PART
#define C14_PART -1
#endif
#ifndef VERIF_TARGET_NAME
#define VERIF_TARGET_NAME "c14_any"
#endif

namespace gil = boost::gil;
namespace mp = boost::mp11;
namespace v2 = boost::variant2;
using verif::Case;
using verif::i64;
using vl::get_ch;
using vl::nchan;
using vl::set_ch;

// representative type lists: interleaved / planar / reordered layout, 8 and 16 bit, 1/3/4 channels
using L1 = mp::mp_list<gil::gray8_image_t, gil::rgb8_image_t, gil::bgr8_image_t, gil::rgb8_planar_image_t, gil::rgba8_image_t, gil::gray16_image_t, gil::rgb16_image_t>;
using Any1 = mp::mp_rename<L1, gil::any_image>;
using AV1 = Any1::view_t;
using ACV1 = Any1::const_view_t;
constexpr int N1 = static_cast<int>(mp::mp_size<L1>::value);
// compatibility classes of L1 (documentation: same colour space and pairwise-compatible channels; layout is free)
static const int CLS1[N1] = {0, 1, 1, 1, 2, 3, 4};
static const int NCH1[N1] = {1, 3, 3, 3, 4, 1, 3};
// a second list: another order, a subset, one type that L1 lacks
using L2 = mp::mp_list<gil::rgb8_planar_image_t, gil::gray8_image_t, gil::cmyk8_image_t, gil::rgb8_image_t>;
using Any2 = mp::mp_rename<L2, gil::any_image>;
using AV2 = Any2::view_t;
constexpr int N2 = static_cast<int>(mp::mp_size<L2>::value);
static const int CLS2[N2] = {1, 0, 5, 1};
// a sub-list of L1 (variants over a sub-list convert to the full list)
using L3 = mp::mp_list<gil::rgb8_planar_image_t, gil::gray8_image_t, gil::rgb8_image_t>;
using Any3 = mp::mp_rename<L3, gil::any_image>;
constexpr int N3 = 3;
// xy-step ("closed") view lists: every transformation maps them to themselves
using XY1 = gil::dynamic_xy_step_type<AV1>::type;
using XY2 = gil::dynamic_xy_step_type<AV2>::type;

template <class V> using xy_of = typename gil::dynamic_xy_step_type<V>::type;

// ------------------------------------------------------------------------------------------------ pixel identity / values
template <class R> struct is_planar_ref : std::false_type {};
template <class C, class S> struct is_planar_ref<gil::planar_pixel_reference<C, S>> : std::true_type {};

template <class View> void const* pix_addr(View const& v, i64 x, i64 y)
{
    using R = typename View::reference;
    if constexpr (std::is_lvalue_reference<R>::value) return static_cast<void const*>(&v(x, y));
    else if constexpr (is_planar_ref<R>::value) { R r = v(x, y); return static_cast<void const*>(&gil::at_c<0>(r)); }
    else return nullptr; // value-returning view (colour converted): compared by value
}
template <class View> std::vector<double> pix_vals(View const& v, i64 x, i64 y)
{
    typename View::value_type p = v(x, y);
    std::vector<double> r;
    for (int k = 0; k < nchan<typename View::value_type>(); ++k) r.push_back(get_ch(p, k));
    return r;
}
// the alternative held by the run-time result is "exactly" the concrete result
template <class VA, class VC> void same_view(VA const& a, VC const& c, std::string const& what)
{
    VCHECK(a.width() == c.width() && a.height() == c.height(), what, ": dimensions ", a.width(), "x", a.height(), " vs concrete ", c.width(), "x", c.height());
    static_assert(nchan<typename VA::value_type>() == nchan<typename VC::value_type>(), "channel count of the alternative");
    for (i64 y = 0; y < c.height(); ++y)
        for (i64 x = 0; x < c.width(); ++x)
        {
            void const* pa = pix_addr(a, x, y);
            void const* pc = pix_addr(c, x, y);
            VCHECK(pa == pc, what, ": pixel (", x, ",", y, ") of the run-time result designates other memory than the concrete result");
            VCHECK(pix_vals(a, x, y) == pix_vals(c, x, y), what, ": pixel (", x, ",", y, ") differs from the concrete result");
        }
    if constexpr (std::is_same<VA, VC>::value) VCHECK(a == c, what, ": views compare unequal");
}
template <class View> std::vector<double> dump(View const& v)
{
    std::vector<double> r;
    for (i64 y = 0; y < v.height(); ++y)
        for (i64 x = 0; x < v.width(); ++x)
        {
            auto p = pix_vals(v, x, y);
            r.insert(r.end(), p.begin(), p.end());
        }
    return r;
}
template <class AnyV> std::vector<double> dump_any(AnyV const& av)
{
    return v2::visit([](auto const& v) { return dump(v); }, av);
}

// ------------------------------------------------------------------------------------------------ construction
template <class AnyImg, class L> AnyImg make_any(int alt, i64 w, i64 h, std::uint64_t seed, unsigned align = 0)
{
    AnyImg r;
    mp::mp_with_index<mp::mp_size<L>::value>(static_cast<std::size_t>(alt), [&](auto I) {
        using Img = mp::mp_at_c<L, decltype(I)::value>;
        Img img(w, h, align);
        vl::fill_tags(gil::view(img), seed);
        r = AnyImg(std::move(img));
    });
    return r;
}

// ------------------------------------------------------------------------------------------------ view operations
enum OpK { O_FUD = 0, O_FLR, O_TR, O_CW, O_CCW, O_180, O_SUB, O_SUBP, O_SS, O_SSP, O_CLOSED_COUNT, O_NTH = O_CLOSED_COUNT, O_CC_GRAY8, O_CC_RGB8, O_CC_RGBA16, O_ALL_COUNT };
static const char* op_name[] = {"flipped_up_down", "flipped_left_right", "transposed", "rotated90cw", "rotated90ccw", "rotated180", "subimage(x,y,w,h)", "subimage(point,point)", "subsampled(x,y)", "subsampled(point)",
                                "nth_channel", "color_converted<gray8>", "color_converted<rgb8>", "color_converted<rgba16>"};
struct Op { int k; i64 a, b, c, d; };

// parameters are made valid for the view at hand (sub-rectangle inside, steps >= 1, channel < num_channels)
static Op fit(Op o, i64 w, i64 h, int nch)
{
    auto md = [](i64 v, i64 m) { return m <= 0 ? 0 : ((v % m) + m) % m; };
    if (o.k == O_SUB || o.k == O_SUBP)
    {
        o.a = md(o.a, w + 1); o.b = md(o.b, h + 1);
        o.c = md(o.c, w - o.a + 1); o.d = md(o.d, h - o.b + 1);
    }
    else if (o.k == O_SS || o.k == O_SSP) { o.a = 1 + md(o.a, 3); o.b = 1 + md(o.b, 3); }
    else if (o.k == O_NTH) o.a = md(o.a, nch);
    return o;
}

// the same call on either a run-time or a concrete view: overload resolution picks the dynamic_image overloads for any_image_view
template <class V, class K> void apply_closed(V const& v, Op const& o, K&& k)
{
    switch (o.k)
    {
    case O_FUD: k(gil::flipped_up_down_view(v)); break;
    case O_FLR: k(gil::flipped_left_right_view(v)); break;
    case O_TR: k(gil::transposed_view(v)); break;
    case O_CW: k(gil::rotated90cw_view(v)); break;
    case O_CCW: k(gil::rotated90ccw_view(v)); break;
    case O_180: k(gil::rotated180_view(v)); break;
    case O_SUB: k(gil::subimage_view(v, o.a, o.b, o.c, o.d)); break;
    case O_SUBP: k(gil::subimage_view(v, gil::point_t(o.a, o.b), gil::point_t(o.c, o.d))); break;
    case O_SS: k(gil::subsampled_view(v, o.a, o.b)); break;
    case O_SSP: k(gil::subsampled_view(v, gil::point_t(o.a, o.b))); break;
    default: throw verif::Fail("bad closed op");
    }
}
// one operation, selected at compile time (K) so that the run-time and the concrete call are instantiated once per operation
template <int K, class V> auto do_op(V const& v, Op const& o)
{
    if constexpr (K == O_FUD) return gil::flipped_up_down_view(v);
    else if constexpr (K == O_FLR) return gil::flipped_left_right_view(v);
    else if constexpr (K == O_TR) return gil::transposed_view(v);
    else if constexpr (K == O_CW) return gil::rotated90cw_view(v);
    else if constexpr (K == O_CCW) return gil::rotated90ccw_view(v);
    else if constexpr (K == O_180) return gil::rotated180_view(v);
    else if constexpr (K == O_SUB) return gil::subimage_view(v, o.a, o.b, o.c, o.d);
    else if constexpr (K == O_SUBP) return gil::subimage_view(v, gil::point_t(o.a, o.b), gil::point_t(o.c, o.d));
    else if constexpr (K == O_SS) return gil::subsampled_view(v, o.a, o.b);
    else if constexpr (K == O_SSP) return gil::subsampled_view(v, gil::point_t(o.a, o.b));
    else if constexpr (K == O_NTH) return gil::nth_channel_view(v, static_cast<int>(o.a));
    else if constexpr (K == O_CC_GRAY8) return gil::color_converted_view<gil::gray8_pixel_t>(v);
    else if constexpr (K == O_CC_RGB8) return gil::color_converted_view<gil::rgb8_pixel_t>(v);
    else return gil::color_converted_view<gil::rgba16_pixel_t>(v, gil::default_color_converter());
}
template <class RA, class RC> void check_result(RA const& ra, int alt, RC const& rc, std::string const& what);
// the same operation on the run-time view `va` (holding alternative alt) and on the concrete view `vc`
template <class VA, class VC> void check_op(VA const& va, int alt, VC const& vc, Op const& o, std::string const& what)
{
    mp::mp_with_index<O_ALL_COUNT>(static_cast<std::size_t>(o.k), [&](auto K) { check_result(do_op<decltype(K)::value>(va, o), alt, do_op<decltype(K)::value>(vc, o), what); });
}

// run-time result `ra` of an operation on a variant holding alternative `alt` against the concrete result `rc`
template <class RA, class RC> void check_result(RA const& ra, int alt, RC const& rc, std::string const& what)
{
    // "the corresponding alternative": position alt of the result list, or - where the result list repeats a type (nth_channel of rgb8 and of
    // bgr8 views is the same gray8 step view) - an alternative of that very type, which no visitor can tell apart
    bool corresponding = false;
    mp::mp_with_index<mp::mp_size<RA>::value>(static_cast<std::size_t>(alt), [&](auto I) {
        using Want = mp::mp_at_c<RA, decltype(I)::value>;
        v2::visit([&](auto const& va) { corresponding = std::is_same<std::decay_t<decltype(va)>, Want>::value; }, ra);
    });
    VCHECK(corresponding, what, ": result holds alternative ", ra.index(), " whose type is not that of position ", alt, " (the operand's alternative) of the result list");
    if (mp::mp_is_set<RA>::value) VCHECK(static_cast<int>(ra.index()) == alt, what, ": result holds alternative ", ra.index(), ", the operand held ", alt);
    VCHECK(ra.dimensions() == rc.dimensions() && ra.width() == rc.width() && ra.height() == rc.height(), what, ": dimensions()");
    VCHECK(ra.num_channels() == static_cast<std::size_t>(nchan<typename RC::value_type>()), what, ": num_channels() ", ra.num_channels());
    VCHECK(ra.size() == static_cast<std::size_t>(rc.size()), what, ": size() ", ra.size(), " vs ", rc.size());
    bool visited = false;
    v2::visit([&](auto const& va) {
        using VA = std::decay_t<decltype(va)>;
        if constexpr (nchan<typename VA::value_type>() == nchan<typename RC::value_type>() && std::is_same<typename VA::value_type, typename RC::value_type>::value)
        {
            same_view(va, rc, what);
            visited = true;
        }
    }, ra);
    VCHECK(visited, what, ": the alternative held by the result has another pixel type than the concrete result");
}

template <class L, class AnyV, class Fn> void with_alt(AnyV const& av, Fn&& fn)
{
    mp::mp_with_index<mp::mp_size<AnyV>::value>(av.index(), [&](auto I) { fn(v2::get<decltype(I)::value>(av), I); });
}

// ------------------------------------------------------------------------------------------------ sub-property 1: transformations
static std::vector<Op> ops_of(Case const& c, char const* key)
{
    std::vector<Op> r;
    auto const& l = c.list(key);
    for (std::size_t i = 0; i + 4 < l.size(); i += 5) r.push_back(Op{static_cast<int>(l[i]), l[i + 1], l[i + 2], l[i + 3], l[i + 4]});
    return r;
}

// program over the closed lists: result as run-time view and, alternative by alternative, as concrete view
template <class XYAny, class AnyV> XYAny run_closed(AnyV const& root, std::vector<Op> const& prog, std::string& trace)
{
    XYAny cur = gil::subsampled_view(root, 1, 1);
    for (Op o : prog)
    {
        if (o.k >= O_CLOSED_COUNT) continue;
        o = fit(o, cur.width(), cur.height(), static_cast<int>(cur.num_channels()));
        trace += std::string(" ") + op_name[o.k];
        apply_closed(cur, o, [&](auto const& r) {
            static_assert(std::is_same<std::decay_t<decltype(r)>, XYAny>::value, "xy-step run-time views are closed under the transformations");
            cur = r;
        });
    }
    return cur;
}
template <class V> xy_of<V> run_closed_concrete(V const& root, std::vector<Op> const& prog)
{
    xy_of<V> cur = gil::subsampled_view(root, 1, 1);
    for (Op o : prog)
    {
        if (o.k >= O_CLOSED_COUNT) continue;
        o = fit(o, cur.width(), cur.height(), nchan<typename V::value_type>());
        apply_closed(cur, o, [&](auto const& r) { cur = xy_of<V>(r); });
    }
    return cur;
}

#if C14_PART < 0 || C14_PART == 0
static void run_transform(Case const& c)
{
    int alt = static_cast<int>(c.get("alt")) % N1;
    i64 w = c.get("w"), h = c.get("h");
    std::uint64_t seed = static_cast<std::uint64_t>(c.get("seed"));
    Any1 img = make_any<Any1, L1>(alt, w, h, seed, static_cast<unsigned>(c.get("align", 0)));
    VCHECK(static_cast<int>(img.index()) == alt && img.width() == w && img.height() == h && img.dimensions() == gil::point_t(w, h), "any_image index/dimensions after construction");
    VCHECK(img.num_channels() == static_cast<std::size_t>(NCH1[alt]), "any_image::num_channels ", img.num_channels());
    AV1 av = gil::view(img);
    ACV1 cav = gil::const_view(img);
    VCHECK(static_cast<int>(av.index()) == alt && static_cast<int>(cav.index()) == alt, "view()/const_view() alternative");
    auto prog = ops_of(c, "prog");
    Op last = ops_of(c, "last").at(0);
    bool use_const = c.get("const", 0) != 0;
    with_alt<L1>(av, [&](auto const& v, auto I) {
        using V = std::decay_t<decltype(v)>;
        using Img = mp::mp_at_c<L1, decltype(I)::value>;
        Img& cimg = v2::get<decltype(I)::value>(img);
        VCHECK(v == gil::view(cimg), "view(any_image) is not the view of the held image");
        check_result(av, alt, v, "view(any_image)");
        check_result(cav, alt, gil::const_view(cimg), "const_view(any_image)");
        // (a) one operation straight on the natural (non-step) list: result type construction per alternative
        {
            Op o = fit(last, w, h, nchan<typename V::value_type>());
            std::string what = std::string(op_name[o.k]) + " on " + (use_const ? "const_view" : "view") + "(any_image)";
            if (use_const) check_op(cav, alt, gil::const_view(cimg), o, what);
            else check_op(av, alt, v, o, what);
        }
        // (b) a program of transformations over the closed xy-step list, then one more (possibly type changing) operation
        std::string trace;
        XY1 ra = run_closed<XY1>(av, prog, trace);
        auto rc = run_closed_concrete(v, prog);
        check_result(ra, alt, rc, "program:" + trace);
        Op o = fit(last, rc.width(), rc.height(), nchan<typename V::value_type>());
        check_op(ra, alt, rc, o, "program:" + trace + " " + op_name[o.k]);
    });
}

#else
static void run_transform(Case const&) { throw verif::Fail("harness: transform cases are not compiled into this part"); }
#endif

// ------------------------------------------------------------------------------------------------ sub-property 2: algorithms over ordered pairs
enum Alg { A_COPY = 0, A_COPY_AC, A_COPY_CA, A_CONV, A_CONV_AC, A_CONV_CA, A_CONV_CC, A_EQ, A_EQ_AC, A_EQ_CA, A_FILL, A_FOREACH, A_RESAMPLE, A_RESAMPLE_AC, A_RESAMPLE_CA, A_COUNT };
static const char* alg_name[] = {"copy_pixels(any,any)", "copy_pixels(any,view)", "copy_pixels(view,any)", "copy_and_convert_pixels(any,any)", "copy_and_convert_pixels(any,view)", "copy_and_convert_pixels(view,any)",
                                 "copy_and_convert_pixels(any|view,any|view,cc)", "equal_pixels(any,any)", "equal_pixels(any,view)", "equal_pixels(view,any)", "fill_pixels(any,pixel)", "for_each_pixel(any,f)",
                                 "resample_pixels(any,any)", "resample_pixels(any,view)", "resample_pixels(view,any)"};

struct Halver // a generic pixel functor that counts its calls, in the caller's counter and in its own state (the algorithm returns the functor)
{
    long* calls;
    long own = 0;
    double sum = 0;
    template <class P> void operator()(P&& p)
    {
        ++*calls;
        ++own;
        sum += get_ch(p, 0);
        set_ch(p, 0, std::floor(get_ch(p, 0) / 2));
    }
};
struct SwapCC // a user colour converter WITH STATE: default conversion, then (only when so constructed) first channel inverted; a
{             // default-constructed one is the plain default conversion, so an algorithm that drops the caller's converter object is seen
    bool invert = false;
    SwapCC() = default;
    explicit SwapCC(bool i) : invert(i) {}
    template <class S, class D> void operator()(S const& s, D& d) const
    {
        gil::default_color_converter()(s, d);
        if (invert) gil::at_c<0>(d) = gil::channel_invert(gil::at_c<0>(d));
    }
};

// dst program: dihedral ops + optional subsampling, then a final sub-rectangle of exactly the source's size
template <class XYAny, class AnyV> XYAny dst_view_any(AnyV const& root, std::vector<Op> const& prog, i64 w, i64 h, i64 ox, i64 oy, std::string& trace)
{
    XYAny cur = run_closed<XYAny>(root, prog, trace);
    if (cur.width() < w || cur.height() < h) throw verif::Fail("harness: destination program shrank below the source size");
    return gil::subimage_view(cur, ox % (cur.width() - w + 1), oy % (cur.height() - h + 1), w, h);
}
template <class V> xy_of<V> dst_view_concrete(V const& root, std::vector<Op> const& prog, i64 w, i64 h, i64 ox, i64 oy)
{
    xy_of<V> cur = run_closed_concrete(root, prog);
    return xy_of<V>(gil::subimage_view(cur, ox % (cur.width() - w + 1), oy % (cur.height() - h + 1), w, h));
}

template <class Fn> bool throws_bad_cast(Fn&& fn, std::string const& what)
{
    try { fn(); }
    catch (std::bad_cast const&) { return true; }
    catch (verif::Fail const&) { throw; }
    catch (std::exception const& e) { throw verif::Fail(what + ": threw " + e.what() + " instead of std::bad_cast"); }
    return false;
}

// algorithm group 0: copy_pixels / copy_and_convert_pixels overloads; group 1: equal_pixels, fill_pixels, for_each_pixel, resample_pixels
static int alg_group(int alg) { return alg <= A_CONV_CC ? 0 : 1; }
template <int G, class AnyS, class LS, class AnyD, class LD, class XYS, class XYD>
static void run_pair_impl(Case const& c, int const* cls_s, int const* cls_d)
{
    constexpr int NS = static_cast<int>(mp::mp_size<LS>::value), ND = static_cast<int>(mp::mp_size<LD>::value);
    int a = static_cast<int>(c.get("a")) % NS, b = static_cast<int>(c.get("b")) % ND;
    int alg = static_cast<int>(c.get("alg")) % A_COUNT;
    std::uint64_t seed = static_cast<std::uint64_t>(c.get("seed"));
    i64 w0 = c.get("w"), h0 = c.get("h");
    auto sprog = ops_of(c, "sprog"), dprog = ops_of(c, "dprog");
    bool alias = c.get("alias", 0) != 0 && std::is_same<AnyS, AnyD>::value; // both operands over the same image (equal_pixels only)
    if (alias && alg != A_EQ && alg != A_EQ_AC && alg != A_EQ_CA) alias = false;
    if (alias) b = a;
    AnyS simg = make_any<AnyS, LS>(a, w0, h0, seed);
    std::string strace, dtrace;
    XYS sv = run_closed<XYS>(gil::view(simg), sprog, strace);
    i64 w = sv.width(), h = sv.height();
    // destination root: large enough for any dihedral arrangement and the chosen subsampling
    i64 side = std::max<i64>(std::max(w, h), 1) * 3 + c.get("extra", 0);
    AnyD dimg = make_any<AnyD, LD>(b, side, side, seed ^ 0x5555);
    // every second case: destination pixels start equal to the source where types allow (equal_pixels true branch)
    bool compatible = cls_s[a] == cls_d[b];
    i64 ox = c.get("ox"), oy = c.get("oy");
    std::string what = std::string(alg_name[alg]) + " src alt " + std::to_string(a) + " [" + strace + " ] dst alt " + std::to_string(b) + " [" + dtrace + " ]" + (alias ? " (aliasing)" : "");

    mp::mp_with_index<NS>(static_cast<std::size_t>(a), [&](auto IA) {
        mp::mp_with_index<ND>(static_cast<std::size_t>(b), [&](auto IB) {
            using SI = mp::mp_at_c<LS, decltype(IA)::value>;
            using DI = mp::mp_at_c<LD, decltype(IB)::value>;
            using SV = typename SI::view_t;
            using DV = typename DI::view_t;
            constexpr bool lib_compat = gil::views_are_compatible<SV, DV>::value;
            VCHECK(lib_compat == compatible, "views_are_compatible<alt ", a, ", alt ", b, "> = ", lib_compat, " but the documentation rule gives ", compatible);
            SI& cs = v2::get<decltype(IA)::value>(simg);
            xy_of<SV> csv = run_closed_concrete(gil::view(cs), sprog);
            // twin images for the concrete run: same contents, same programs
            DI ctwin(v2::get<decltype(IB)::value>(dimg));
            XYD dv;
            xy_of<DV> cdv, ddv;
            if (alias)
            {
                if constexpr (std::is_same<AnyS, AnyD>::value && std::is_same<SI, DI>::value)
                {
                    // both operands are views of the SAME image (dihedral programs keep the size for a square root or differ: regenerate by trimming to the common square)
                    i64 m = std::min(w, h);
                    sv = gil::subimage_view(sv, 0, 0, m, m);
                    csv = xy_of<SV>(gil::subimage_view(csv, 0, 0, m, m));
                    std::vector<Op> dih;
                    for (Op o : dprog) if (o.k <= O_180) dih.push_back(o);
                    std::string t2;
                    XYD tmp = run_closed<XYD>(sv, dih, t2);
                    dv = tmp;
                    ddv = run_closed_concrete(csv, dih);
                    cdv = ddv;
                    w = h = m;
                }
            }
            else
            {
                dv = dst_view_any<XYD>(gil::view(dimg), dprog, w, h, ox, oy, dtrace);
                ddv = dst_view_concrete(gil::view(v2::get<decltype(IB)::value>(dimg)), dprog, w, h, ox, oy);
                cdv = dst_view_concrete(gil::view(ctwin), dprog, w, h, ox, oy);
            }
            check_result(dv, b, ddv, what + ": destination view");
            if constexpr (lib_compat)
                if (c.get("preeq", 0) != 0 && !alias) { gil::copy_pixels(csv, ddv); gil::copy_pixels(csv, cdv); }
            auto root_before = dump(gil::const_view(v2::get<decltype(IB)::value>(dimg)));
            auto expect_unchanged = [&] { VCHECK(dump(gil::const_view(v2::get<decltype(IB)::value>(dimg))) == root_before, what, ": destination changed although the operation threw std::bad_cast"); };
            auto expect_like_twin = [&] {
                VCHECK(dump(gil::const_view(v2::get<decltype(IB)::value>(dimg))) == dump(gil::const_view(ctwin)), what, ": destination root differs from the concrete operation's (pixels inside or OUTSIDE the view)");
            };
            gil::matrix3x2<double> mat = gil::matrix3x2<double>::get_translate(static_cast<double>(c.get("tx", 0)), static_cast<double>(c.get("ty", 0)));
            if (alg_group(alg) != G) throw verif::Fail("harness: algorithm not compiled into this part");
            if constexpr (G == 0) switch (alg)
            {
            case A_COPY: case A_COPY_AC: case A_COPY_CA:
            {
                auto call = [&] { if (alg == A_COPY) gil::copy_pixels(sv, dv); else if (alg == A_COPY_AC) gil::copy_pixels(sv, ddv); else gil::copy_pixels(csv, dv); };
                if constexpr (lib_compat) { call(); gil::copy_pixels(csv, cdv); expect_like_twin(); }
                else { VCHECK(throws_bad_cast(call, what), what, ": incompatible alternatives did not throw std::bad_cast"); expect_unchanged(); }
                break;
            }
            case A_CONV: gil::copy_and_convert_pixels(sv, dv); gil::copy_and_convert_pixels(csv, cdv); expect_like_twin(); break;
            case A_CONV_AC: gil::copy_and_convert_pixels(sv, ddv); gil::copy_and_convert_pixels(csv, cdv); expect_like_twin(); break;
            case A_CONV_CA: gil::copy_and_convert_pixels(csv, dv); gil::copy_and_convert_pixels(csv, cdv); expect_like_twin(); break;
            case A_CONV_CC: // the three overloads taking a converter object, chosen by the case's offsets
                switch ((ox + oy + w + h) % 3)
                {
                case 0: gil::copy_and_convert_pixels(sv, dv, SwapCC(true)); break;
                case 1: gil::copy_and_convert_pixels(sv, ddv, SwapCC(true)); break;
                default: gil::copy_and_convert_pixels(csv, dv, SwapCC(true)); break;
                }
                gil::copy_and_convert_pixels(csv, cdv, SwapCC(true));
                expect_like_twin();
                break;
            default: break;
            }
            else switch (alg)
            {
            case A_EQ: case A_EQ_AC: case A_EQ_CA:
            {
                bool got = false;
                auto call = [&] { got = alg == A_EQ ? gil::equal_pixels(sv, dv) : alg == A_EQ_AC ? gil::equal_pixels(sv, ddv) : gil::equal_pixels(csv, dv); };
                if constexpr (lib_compat)
                {
                    call();
                    bool want = gil::equal_pixels(csv, ddv);
                    // and independently of the concrete algorithm: value comparison in semantic channel order
                    bool indep = true;
                    for (i64 y = 0; y < h && indep; ++y)
                        for (i64 x = 0; x < w && indep; ++x)
                        {
                            typename SV::value_type ps = csv(x, y);
                            typename DV::value_type pd = ddv(x, y);
                            indep = ps == pd;
                        }
                    VCHECK(want == indep, what, ": harness: concrete equal_pixels disagrees with per-pixel comparison");
                    VCHECK(got == want, what, ": returned ", got, ", the concrete equal_pixels returns ", want);
                }
                else VCHECK(throws_bad_cast(call, what), what, ": incompatible alternatives did not throw std::bad_cast");
                expect_unchanged();
                break;
            }
            case A_FILL:
            {
                // the fill value has the pixel type of the SOURCE alternative
                typename SV::value_type val;
                for (int k = 0; k < nchan<typename SV::value_type>(); ++k) set_ch(val, k, 1 + ((seed >> (8 * k)) & 0x7f));
                auto call = [&] { gil::fill_pixels(dv, val); };
                if constexpr (gil::pixels_are_compatible<typename SV::value_type, typename DV::value_type>::value)
                {
                    call();
                    gil::fill_pixels(cdv, val);
                    expect_like_twin();
                }
                else { VCHECK(throws_bad_cast(call, what), what, ": fill value of an incompatible pixel type did not throw std::bad_cast"); expect_unchanged(); }
                VCHECK((gil::pixels_are_compatible<typename SV::value_type, typename DV::value_type>::value) == compatible, what, ": pixels_are_compatible disagrees with the documentation rule");
                break;
            }
            case A_FOREACH:
            {
                long n1 = 0, n2 = 0;
                Halver f = gil::for_each_pixel(dv, Halver{&n1});
                Halver fc = gil::for_each_pixel(cdv, Halver{&n2});
                VCHECK(n1 == n2 && n1 == static_cast<long>(w * h) && f.calls == &n1, what, ": functor called ", n1, " times for ", w * h, " pixels");
                VCHECK(f.own == fc.own && f.sum == fc.sum && f.own == static_cast<long>(w * h), what, ": the returned functor has seen ", f.own, " pixels (sum ", f.sum, "), the concrete algorithm returns one that has seen ", fc.own, " (sum ", fc.sum, ")");
                expect_like_twin();
                break;
            }
            case A_RESAMPLE: case A_RESAMPLE_AC: case A_RESAMPLE_CA:
            {
                auto call = [&] {
                    if (alg == A_RESAMPLE) gil::resample_pixels(sv, dv, mat, gil::nearest_neighbor_sampler());
                    else if (alg == A_RESAMPLE_AC) gil::resample_pixels(sv, ddv, mat, gil::nearest_neighbor_sampler());
                    else gil::resample_pixels(csv, dv, mat, gil::nearest_neighbor_sampler());
                };
                if constexpr (lib_compat) { call(); gil::resample_pixels(csv, cdv, mat, gil::nearest_neighbor_sampler()); expect_like_twin(); }
                else { VCHECK(throws_bad_cast(call, what), what, ": incompatible alternatives did not throw std::bad_cast"); expect_unchanged(); }
                break;
            }
            default: break;
            }
            // the source is never written
            VCHECK(dump(csv) == dump_any(sv), what, ": source view changed");
        });
    });
}
// build parts (-DC14_PART): 0 = transform + value; 1..6 = pair for (type lists, algorithm group) = (0,0) (0,1) (1,0) (1,1) (2,0) (2,1); default: everything
constexpr bool part_has_pair(int lists, int g) { return C14_PART < 0 || C14_PART == 1 + lists * 2 + g; }
static void run_pair(Case const& c)
{
    int lists = static_cast<int>(c.get("lists", 0) % 3), g = alg_group(static_cast<int>(c.get("alg")) % A_COUNT);
    bool ran = false;
    mp::mp_for_each<mp::mp_iota_c<6>>([&](auto K) {
        constexpr int l = decltype(K)::value / 2, gg = decltype(K)::value % 2;
        if constexpr (part_has_pair(l, gg))
            if (l == lists && gg == g)
            {
                ran = true;
                if constexpr (l == 0) run_pair_impl<gg, Any1, L1, Any1, L1, XY1, XY1>(c, CLS1, CLS1);
                else if constexpr (l == 1) run_pair_impl<gg, Any1, L1, Any2, L2, XY1, XY2>(c, CLS1, CLS2);
                else run_pair_impl<gg, Any2, L2, Any1, L1, XY2, XY1>(c, CLS2, CLS1);
            }
    });
    if (!ran) throw verif::Fail("harness: this (type lists, algorithm group) is not compiled into this part");
}

// ------------------------------------------------------------------------------------------------ sub-property 3: value semantics
#if C14_PART < 0 || C14_PART == 7
static void run_value(Case const& c)
{
    int alt = static_cast<int>(c.get("alt")) % N1, alt2 = static_cast<int>(c.get("alt2")) % N1;
    i64 w = c.get("w"), h = c.get("h"), w2 = c.get("w2"), h2 = c.get("h2");
    std::uint64_t seed = static_cast<std::uint64_t>(c.get("seed"));
    Any1 img = make_any<Any1, L1>(alt, w, h, seed);
    auto before = dump_any(gil::const_view(img));
    auto poke = [&](auto& any_or_view) {
        // changes channel 0 of pixel (px,py)
        v2::visit([&](auto const& v) { if (v.width() > 0 && v.height() > 0) { auto&& p = v(c.get("px") % v.width(), c.get("py") % v.height()); set_ch(p, 0, get_ch(p, 0) == 5 ? 6 : 5); } }, any_or_view);
    };
    {
        Any1 def;
        VCHECK(def.index() == 0 && def.width() == 0 && def.height() == 0, "default constructed any_image");
    }
    // copy construction is deep
    {
        Any1 cp(img);
        VCHECK(cp.index() == img.index() && cp.dimensions() == img.dimensions() && cp == img && !(cp != img), "copy of any_image differs from the original");
        auto cv = gil::view(cp);
        poke(cv);
        VCHECK(dump_any(gil::const_view(img)) == before, "writing to a copy of any_image changed the original (copy is not deep)");
        if (w > 0 && h > 0) VCHECK(cp != img && !(cp == img), "any_image equality is not deep: copy with one changed pixel compares equal");
    }
    // assignment is deep, and replaces the held type
    {
        Any1 other = make_any<Any1, L1>(alt2, w2, h2, seed ^ 77);
        Any1 as = make_any<Any1, L1>(alt2, w2, h2, seed ^ 78);
        as = img;
        VCHECK(as.index() == img.index() && as == img, "any_image assignment");
        auto asv = gil::view(as);
        poke(asv);
        VCHECK(dump_any(gil::const_view(img)) == before, "writing to an assigned any_image changed the right-hand side");
        as = other;
        VCHECK(static_cast<int>(as.index()) == alt2 && as == other && as.dimensions() == gil::point_t(w2, h2), "any_image re-assignment to another alternative");
        bool same_content = (alt == alt2 && w == w2 && h == h2 && dump_any(gil::const_view(other)) == before);
        VCHECK((other == img) == same_content, "any_image operator== between alt ", alt, " and ", alt2);
        // from a concrete image
        mp::mp_with_index<N1>(static_cast<std::size_t>(alt2), [&](auto I) {
            using Img = mp::mp_at_c<L1, decltype(I)::value>;
            Img ci(v2::get<decltype(I)::value>(other));
            Any1 x = make_any<Any1, L1>(alt, 1, 1, 3);
            x = ci;
            VCHECK(x.index() == decltype(I)::value && v2::get<decltype(I)::value>(x) == ci, "assignment of a concrete image");
            if (w2 > 0 && h2 > 0) gil::view(ci)(0, 0) = typename Img::value_type();
            if (w2 > 0 && h2 > 0) VCHECK(dump_any(gil::const_view(x)) == dump_any(gil::const_view(other)), "assignment of a concrete image is not deep");
        });
    }
    // any_image_view: shallow copy, shallow equality
    {
        AV1 v = gil::view(img);
        AV1 vc(v);
        AV1 va = gil::view(img);
        Any1 other = make_any<Any1, L1>(alt2, w2, h2, seed ^ 79);
        va = gil::view(other);
        va = v;
        VCHECK(vc == v && va == v && !(vc != v), "copies of an any_image_view compare unequal");
        Any1 deep(img);
        AV1 vd = gil::view(deep);
        if (w > 0 && h > 0) VCHECK(vd != v, "views of two distinct (deep-copied) images compare equal: any_image_view equality must be shallow");
        poke(vc);
        if (w > 0 && h > 0)
        {
            VCHECK(dump_any(gil::const_view(img)) != before, "write through a copied any_image_view did not reach the image (copy is not shallow)");
            VCHECK(dump_any(v) == dump_any(vc) && dump_any(va) == dump_any(vc), "copies of an any_image_view see different pixels");
            VCHECK(dump_any(gil::const_view(deep)) == before, "deep copy changed by a write through a view of the original");
        }
        // const view from view
        ACV1 cv = gil::const_view(img);
        VCHECK(cv.index() == v.index() && cv.dimensions() == v.dimensions() && dump_any(cv) == dump_any(v), "const_view(any_image)");
        // a view variant over a sub-list assigns into the full list keeping type and pixels
        if (CLS1[alt] == 0 || alt == 1 || alt == 3)
        {
            using SubV = gil::any_image_view<gil::rgb8_planar_view_t, gil::gray8_view_t, gil::rgb8_view_t>;
            SubV sv;
            bool set = false;
            v2::visit([&](auto const& cvw) {
                using V = std::decay_t<decltype(cvw)>;
                if constexpr (std::is_same<V, gil::gray8_view_t>::value || std::is_same<V, gil::rgb8_view_t>::value || std::is_same<V, gil::rgb8_planar_view_t>::value) { sv = cvw; set = true; }
            }, v);
            if (set)
            {
                AV1 back;
                back = sv;
                VCHECK(back == v && back.index() == v.index(), "any_image_view assigned from a variant over a sub-list");
            }
        }
    }
    // recreate keeps the held type
    {
        Any1 r(img);
        unsigned al = static_cast<unsigned>(c.get("align", 0));
        if (c.get("recreate_pt", 0)) r.recreate(gil::point_t(w2, h2), al); else if (al) r.recreate(w2, h2, al); else r.recreate(w2, h2);
        VCHECK(static_cast<int>(r.index()) == alt, "recreate changed the held type from ", alt, " to ", r.index());
        VCHECK(r.width() == w2 && r.height() == h2 && r.dimensions() == gil::point_t(w2, h2), "recreate dimensions");
        AV1 rv = gil::view(r);
        VCHECK(rv.width() == w2 && rv.height() == h2 && rv.size() == static_cast<std::size_t>(w2 * h2), "view after recreate");
        // the new buffer is fully usable
        v2::visit([&](auto const& vv) { vl::fill_tags(vv, seed ^ 5); }, rv);
        Any1 tw = make_any<Any1, L1>(alt, w2, h2, seed ^ 5);
        VCHECK(r == tw, "recreated image filled like a fresh one differs from it");
        VCHECK(dump_any(gil::const_view(img)) == dump_any(gil::const_view(Any1(img))), "harness");
    }
    // assignment from a variant over a sub-list: type and contents are kept
    {
        int b = static_cast<int>(c.get("alt2")) % N3;
        {
            Any3 small = make_any<Any3, L3>(b, w2, h2, seed ^ 81);
            Any1 big = make_any<Any1, L1>(alt, w, h, seed);
            big = small;
            VCHECK(big.dimensions() == small.dimensions() && big.num_channels() == small.num_channels() && dump_any(gil::const_view(big)) == dump_any(gil::const_view(small)), "assignment from an any_image over another type list");
            static const int map21[N3] = {3, 0, 1};
            VCHECK(static_cast<int>(big.index()) == map21[b], "assignment from another list: held type index ", big.index());
            auto bv = gil::view(big);
            poke(bv);
            if (w2 > 0 && h2 > 0) VCHECK(dump_any(gil::const_view(big)) != dump_any(gil::const_view(small)), "assignment across lists is not deep");
        }
    }
}

#else
static void run_value(Case const&) { throw verif::Fail("harness: value cases are not compiled into this part"); }
#endif

// ------------------------------------------------------------------------------------------------ generators
static std::vector<i64> gen_prog(int maxlen, int kinds)
{
    std::vector<i64> r;
    int n = static_cast<int>(verif::pick(0, maxlen));
    for (int i = 0; i < n; ++i)
    {
        r.push_back(verif::pick(0, kinds - 1));
        for (int j = 0; j < 4; ++j) r.push_back(verif::pick(0, 12));
    }
    return r;
}
static i64 gen_dim() { return verif::weighted({2, 3, 8}) == 0 ? 0 : verif::pick(1, 7); }
static Case gen_transform()
{
    Case c;
    c.set("part", 0);
    c.set("alt", verif::pick(0, N1 - 1));
    c.set("w", gen_dim()); c.set("h", gen_dim());
    c.set("align", verif::one_of<i64>({0, 0, 1, 4, 16}));
    c.set("seed", verif::seed64());
    c.set("prog", gen_prog(4, O_CLOSED_COUNT));
    std::vector<i64> last = {verif::pick(0, O_ALL_COUNT - 1)};
    for (int j = 0; j < 4; ++j) last.push_back(verif::pick(0, 12));
    c.set("last", last);
    c.set("const", verif::coin(30) ? 1 : 0);
    return c;
}
static Case gen_pair()
{
    Case c;
    int lists = C14_PART < 1 ? verif::weighted({6, 2, 2}) : (C14_PART - 1) / 2;
    c.set("lists", lists);
    c.set("a", verif::pick(0, N1 - 1)); c.set("b", verif::pick(0, N1 - 1));
    if (verif::coin(45)) c.set("b", c.get("a")); // compatible pairs are the minority of a uniform draw
    if (lists == 1 && verif::coin(60)) c.set("a", verif::one_of<i64>({0, 1, 2, 3})), c.set("b", verif::pick(0, N2 - 1));
    if (lists == 2 && verif::coin(60)) c.set("b", verif::one_of<i64>({0, 1, 2, 3})), c.set("a", verif::pick(0, N2 - 1));
    int alg = C14_PART < 1 ? static_cast<int>(verif::pick(0, A_COUNT - 1)) : ((C14_PART - 1) % 2 == 0 ? static_cast<int>(verif::pick(0, A_CONV_CC)) : static_cast<int>(verif::pick(A_EQ, A_COUNT - 1)));
    c.set("alg", alg);
    c.set("part", 1 + lists * 2 + alg_group(alg));
    c.set("w", verif::pick(0, 6)); c.set("h", verif::pick(0, 6));
    c.set("seed", verif::seed64());
    c.set("sprog", gen_prog(3, O_CLOSED_COUNT));
    c.set("dprog", gen_prog(3, O_180 + 1));
    c.set("extra", verif::pick(0, 2)); c.set("ox", verif::pick(0, 20)); c.set("oy", verif::pick(0, 20));
    c.set("preeq", verif::coin(50) ? 1 : 0);
    c.set("alias", verif::coin(25) ? 1 : 0);
    c.set("tx", verif::pick(-2, 2)); c.set("ty", verif::pick(-2, 2));
    return c;
}
static Case gen_value()
{
    Case c;
    c.set("part", 7);
    c.set("alt", verif::pick(0, N1 - 1)); c.set("alt2", verif::pick(0, N1 - 1));
    c.set("w", gen_dim()); c.set("h", gen_dim()); c.set("w2", gen_dim()); c.set("h2", gen_dim());
    c.set("px", verif::pick(0, 6)); c.set("py", verif::pick(0, 6));
    c.set("align", verif::one_of<i64>({0, 0, 1, 8}));
    c.set("recreate_pt", verif::coin(50) ? 1 : 0);
    c.set("seed", verif::seed64());
    return c;
}

void verif_replay(Case const& c)
{
    std::string t = verif::case_target(c);
    if (t == "transform") run_transform(c);
    else if (t == "pair") run_pair(c);
    else if (t == "value") run_value(c);
    else throw verif::Fail("unknown sub-target " + t);
}

void verif_run(verif::Args const& a, verif::Evidence& ev)
{
    bool th = a.thorough();
    ev.rule = "type lists L1 = {gray8, rgb8, bgr8, rgb8 planar, rgba8, gray16, rgb16} and L2 = {rgb8 planar, gray8, cmyk8, rgb8}; shapes 0..7 (0 weighted in). "
              "transform: (alternative, shape, alignment, program of <=4 of the 10 flip/rotate/transpose/subimage/subsample overloads, one final op out of all 14 incl. nth_channel and 3 colour conversions, view or const_view) "
              "-> result index, dimensions, num_channels, size and per-pixel memory identity / value equal to the same calls on the held concrete view. "
              "pair: (ordered pair of alternatives within L1 or across L1/L2, one of 15 algorithm overloads, source program, destination program, offsets, pre-equalised or not, aliasing or not) -> destination root equal to the "
              "twin root after the concrete algorithm, or std::bad_cast and untouched root for pairs the documentation calls incompatible. value: copy/assignment/equality/recreate semantics. "
              "non-trivial: non-empty view and (transform: non-empty program; pair: every case; value: every case); distinct = all keys but the content seed.";
    int n = th ? 1500000 : 40000;
    if (C14_PART < 0 || C14_PART == 0)
    verif::rc_search(ev, a, "transform", n, 60, gen_transform, run_transform, [](Case const& c) { return c.get("w") > 0 && c.get("h") > 0 && !c.list("prog").empty(); }, {"alt", "w", "h", "align", "prog", "last", "const"});
    if (C14_PART < 0 || C14_PART == 7)
    verif::rc_search(ev, a, "value", n / 2, 60, gen_value, run_value, [](Case const& c) { return c.get("w") > 0 && c.get("h") > 0; }, {"alt", "alt2", "w", "h", "w2", "h2", "px", "py", "align", "recreate_pt"});
    if (C14_PART < 0 || (C14_PART >= 1 && C14_PART <= 6))
    verif::rc_search(ev, a, "pair", C14_PART < 0 ? n * 2 : n / 2, 60, gen_pair, run_pair, [](Case const& c) { return c.get("w") > 0 && c.get("h") > 0; }, {"lists", "a", "b", "alg", "w", "h", "sprog", "dprog", "preeq", "alias", "tx", "ty"});
}

VERIF_MAIN(VERIF_TARGET_NAME)
