"""Per-property wording for MANIFEST.json (kept next to targets.py so both stay in step)."""

NOT_APPLICABLE_REASON = {}

TEXTS = {
    "C20": {
        "technique": "complete enumeration of a window of end points / radii / semi-axes against an exact integer-geometry oracle, guard-page buffers for apply_rasterizer",
        "level_text": "Exploration, exhaustive inside the stated window: every (dx,dy) in [-36,36]^2 (quick) / [-64,64]^2 (thorough) at three translations, every radius up to 160/400 for both circle rasterizers, every semi-axes pair up to 56/100, each checked for count, end points, connectivity, monotone major axis, bounding box, distance to the ideal curve (exact integer inequalities), symmetry, and apply_rasterizer into a tight view between guard pages. Nothing is claimed outside the window.",
        "level_note": "Trusts interleaved_view/gray8 pixel access (checked by C01-C03). Known finding F9b narrows the distance clause for shallow lines to the algorithm's own bound.",
    },
}
