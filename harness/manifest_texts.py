"""Per-property wording for MANIFEST.json (kept next to targets.py so both stay in step)."""

NOT_APPLICABLE_REASON = {}

TEXTS = {
    "C20": {
        "technique": "complete enumeration of a window of end points / radii / semi-axes against an exact integer-geometry oracle, guard-page buffers for apply_rasterizer",
        "level_text": "Exploration, exhaustive inside the stated window: every (dx,dy) in [-36,36]^2 (quick) / [-64,64]^2 (thorough) at three translations, every radius up to 160/400 for both circle rasterizers, every semi-axes pair up to 56/100, each checked for count, end points, connectivity, monotone major axis, bounding box, distance to the ideal curve (exact integer inequalities), symmetry, and apply_rasterizer into a tight view between guard pages. Nothing is claimed outside the window.",
        "level_note": "Trusts interleaved_view/gray8 pixel access (checked by C01-C03). Known finding F9b narrows the distance clause for shallow lines to the algorithm's own bound.",
    },
    "C06": {
        "technique": "complete enumeration of source values for every ordered pair of channel models (stratified for 32-bit/float) against an exact rational rescaling oracle",
        "level_text": "Exploration; exhaustive for every ordered pair of the 23 value models over all source values of <=16-bit and packed channels (about 57 million conversions), stratified for 32-bit and float sources, thorough adds complete 2^32 sweeps for seven 32-bit pairs. Each conversion is checked for end points, range, monotonicity, distance to the exact linear map, round trip through any channel with at least as many levels (incl. float32), and identity. A sanitized build repeats a 1/16 slice.",
        "level_note": "Exact arithmetic in __int128/long double is the trusted base. Reference proxies are exercised for a handful of bit layouts only (C08 covers their bit discipline).",
    },
    "C07": {
        "technique": "complete enumeration of operand pairs (lattice for 16-bit in quick, all 2^32 in thorough) against exact integer arithmetic",
        "level_text": "Exploration; exhaustive over all operand pairs of 8-bit and packed (1..12 bit) channels and, in the thorough tier, of u16/s16/packed16 (2^32 pairs each); quick uses all a x a 1/97 lattice of b plus boundary columns. channel_invert over every value of every <=16-bit model and stratified/complete 32-bit. Float on a grid with stated tolerances.",
        "level_note": "Exact integer reference; signed channels are compared after the documented shift to the unsigned range.",
    },
    "C09": {
        "technique": "complete 2^24 rgb8 sweep and complete alpha/ink planes plus seeded pixels for every ordered layout/depth pair; exact-weight, round-trip, metamorphic (premultiplication) and differential (per-channel channel_convert) oracles",
        "level_text": "Exploration; exhaustive over all 2^24 rgb8 pixels (gray weights, exactness on greys, monotonicity via the full table, rgb->cmyk->rgb), the complete (r,a) planes of rgba8/argb8 and (ink,k) planes of cmyk8; every ordered pair of 24 pixel types (4 colour spaces x layouts x 8/16/32f/signed depths) on 2.5k/20k seeded pixels each. View-level agreement (color_converted_view, copy_and_convert_pixels) is decided by the C04 harness's converting cells.",
        "level_note": "channel_convert/channel_multiply are taken as given here (decided by C06/C07).",
    },
    "C18": {
        "technique": "complete 2^24 rgb8 round-trip sweep per toolbox colour space with fixed tolerances, boundary grids for hue periodicity/greys/sector continuity, complete gray_alpha and cmyka planes",
        "level_text": "Exploration; exhaustive over all 2^24 rgb8 pixels for each of hsv, hsl, xyz, lab, ycbcr601, ycbcr709 and the cmyka leg (117 million round trips), plus the hue/saturation/value boundary grid, the complete gray_alpha8 plane, a gray_alpha16 lattice, luminance on a lattice and complete cmyka ink planes.",
        "level_note": "The rgb->cmyka direction does not exist in the library; that clause is instantiated through core rgb->cmyk.",
    },
    "C01": {
        "technique": "rapidcheck-generated construction histories, view programs and access scripts executed under ASan/UBSan with guard-page buffers; invariant oracle plus identity-tag values through a coordinate model",
        "level_text": "Exploration: 80k (quick) / 1.2M (thorough) generated cases over 28 image organisations x 9 construction histories x alignments x shapes (0 and 1 weighted in) x view programs up to depth 4 (+nth_channel) x every accessor x 9 algorithms. Any out-of-buffer access is an ASan report or a fault on a guard page; every value read is also compared with the identity tag of the pixel the model names.",
        "level_note": "Trusts ASan's redzones for image-owned buffers and mmap guard pages for caller-supplied buffers of exactly height x row-bytes. Empty views are only traversed, never dereferenced.",
    },
    "C02": {
        "technique": "rapidcheck view programs interpreted both by the library and by an affine coordinate model over identity-tagged pixels; shallow-write diff; algebraic identities",
        "level_text": "Exploration: 100k (quick) / 1.6M (thorough) generated (configuration, root, shape, program, tail, write) cases; for each, dimensions and EVERY pixel of the derived view are compared with the documented coordinate formula, one write through the view is checked to change exactly one root channel (whole root and raw buffer diffed), and seven identities are checked pixel- and address-wise. Dereference-adaptor (colour-converted, channel) and bit-aligned/planar/packed locators are in the matrix.",
        "level_note": "The model is written from the documentation formulas only. Virtual locators are covered by the separate c02_virtual target.",
    },
    "C03": {
        "technique": "rapidcheck-generated views and walks against an integer position model, with complete enumeration of (start, advance) pairs and of step-iterator offset pairs inside every case",
        "level_text": "Exploration: 24k (quick) / 480k (thorough) generated views (28 organisations, padded / negative-step / transposed / sub-sampled / bit-aligned with odd bit strides / channel and colour-converted adaptors); for each, every (start index, d) pair of the 1-D iterator (w*h <= 40), every offset pair of every row and column iterator, all nine access paths of every pixel, the 1-D traversability predicate, and a generated walk of iterator and locator moves with cached locations and axis iterators.",
        "level_note": "Identity of pixels is address / bit-range identity wherever the reference type allows it, so a path that reaches an equal-valued but different pixel is still caught.",
    },
    "C04": {
        "technique": "rapidcheck-generated source/destination view pairs; differential against the per-pixel (x,y) loop on an identically laid out model buffer with whole-buffer byte comparison; metamorphic single-channel flips for equal_pixels",
        "level_text": "Exploration: 96k (quick) / 1.6M (thorough) generated cases over 39 compatible and 18 converting (source, destination) organisation pairs (interleaved, planar, packed, bit-aligned x 1-D traversable or not, sub-views, sub-sampled, flipped, transposed, padded rows) and 12 algorithms. After each library call the destination's entire guard-page buffer must be byte-identical to the buffer produced by the obvious loop, which decides both 'same result' and 'nothing else modified' (padding, neighbours, shared bits).",
        "level_note": "Trusted base: view(x,y) and single-pixel assignment (decided by C02, C03, C05, C08). Overlapping source/destination are not generated.",
    },
    "C10": {
        "technique": "model-based stateful command sequences (rapidcheck, whole history shrinks) with complete enumeration of injected allocation / element-constructor failures; allocator ledger, element live-set and value model as invariants after every command",
        "level_text": "Fault enumeration: for every generated history (96k quick / 2.5M thorough over 7 image kinds x 4 allocator flavours incl. pmr) the run is repeated once per allocation and element-construction event with exactly that event failing, so every fault point of every explored history is covered. Invariants after each command: ledger (matching allocator, size, no double free), ownership of exactly one live block per non-empty image, element constructed/destroyed exactly once (image<Counted>), deep-value model, requested dimensions and row alignment after recreate, storage reuse; at the end nothing is live.",
        "level_note": "Checking allocators and the Counted element are the harness's own; malloc under ASan backs them. Histories are bounded to 8 (14) commands over 4 slots.",
    },
    "C05": {
        "technique": "every ordered pair of pixel models per colour-space group x seeded channel values, against a name-based (get_color) reference, raw memory order and visit counters",
        "level_text": "Exploration: 120 ordered (source, destination) model pairs in 11 groups (values, planar references, packed pixels, bit-aligned references at non-byte-aligned positions; rgb/bgr, rgba/bgra/argb/abgr, cmyk, devicen<2,5>; 8/16-bit, signed, float, 5-6-5 and 8-8-8-8 packed) x 3k (60k thorough) seeded value sets each: assignment, construction, ==/!=, single-colour perturbation, semantic_at_c vs at_c via the layout mapping, operator[], memory order, and the static_* algorithms with counting functors.",
        "level_note": "The oracle only uses get_color by colour tag and raw bytes; it never uses the mapping metafunctions under test.",
    },
    "C08": {
        "technique": "complete enumeration of 16-bit packed pixel contents, of (first bit, width) pairs of channel references and of iterator moves; seeded random backgrounds for bit-aligned references at every bit offset; bit-level model buffer as oracle",
        "level_text": "Exploration, exhaustive where stated: all 2^16 contents x channels x values of four 16-bit packed pixel types; every (first bit, width) static and dynamic channel reference in 8/16/32/64-bit carriers; 12 bit-aligned pixel types (1..40 bits) x 9 operations x 20k (400k) seeded scenarios in guard-page memory of exactly the occupied bytes, compared bit-for-bit with a model; iterator +n/-n/distance/ordering for every (byte, bit offset) and n in [-48,48].",
        "level_note": "The model buffer is maintained with plain shifts and masks on bytes, independent of GIL's carriers.",
    },
    "C12": {
        "technique": "rapidcheck-generated (format, supported pixel type, shape, view organisation, contents, destination/source device, writer options) round trips: write_view then read_image compared pixel-by-pixel with the source view",
        "level_text": "Exploration: 40k (quick) / 600k (thorough) round trips over the 36 (format, pixel type) pairs of the write-support tables, widths covering every padding residue (BMP mod 4, 1/2/4-bit rows mod 8, TIFF tile edges 16/32 with exact multiples), organisations whole/sub-view/sub-sampled/flipped/transposed, four content kinds, file name / FILE* / std stream on both the write and the read side (optionally crossing them), TIFF none/LZW/deflate/packbits x strips/tiles.",
        "level_note": "Temporary files live in the check's build directory. libpng/libjpeg/libtiff are trusted to be inverse to themselves; GIL's use of them is what is exercised.",
    },
    "C11": {
        "technique": "structured mutation sweep (complete truncation and header-field boundary enumeration, seeded random/insert/long-number mutations of valid files of every variant) plus coverage-guided libFuzzer campaigns per format, all under ASan/UBSan with guard-page destinations, a BOOST_ASSERT trap, an allocation cap and a per-case watchdog; truncation-must-throw oracle for the decoders GIL implements itself",
        "engine": "enumeration/mutation harness + libFuzzer (clang -fsanitize=fuzzer,address,undefined) built by ./check",
        "level_text": "Exploration: per format (BMP 12 variants incl. 1/4/8-bit palette, RLE4/RLE8, top-down, 32-bit; PNM binary+ASCII P1-P6; TARGA raw/RLE x origin x 24/32; PNG gray/rgb/rgba/16-bit/1-bit/4-bit; TIFF strip/tile x none/LZW; JPEG gray/rgb) EVERY truncation length of every base file at two shapes, every byte position of the first 64 bytes (and a lattice beyond) x 26 boundary values as 8/16/32-bit fields, 25k/400k seeded multi-byte mutations, each through 13 entry points (read_image_info, read_image x5 pixel types, read_and_convert_image, read_view/read_and_convert_view into guard-page views, scanline loop, any_image, two sub-rectangle reads) x {istream, FILE*, file name}: about 0.4M (quick) / 3M (thorough) structured cases plus six libFuzzer campaigns of 75 s / 25 min seeded with all base files. Outcome oracle: return or C++ exception; never a sanitizer report, guard fault, assertion, longjmp into a dead frame, or a case above the watchdog. Truncation oracle: a whole-image read of a BMP/PNM/TARGA file that lacks at least one whole sample must throw.",
        "level_note": "Sanitizers see heap/stack/global overruns and UB; intra-object overruns are visible only through UBSan's array-bounds check (which is how the PNM digit buffer was caught). Uninitialised-read detection is indirect (truncation oracle) because MSan cannot be used with the un-instrumented codec libraries. Leaks on error paths are out of scope. libFuzzer campaigns are only approximately reproducible from the seed; a saved artifact is the reproducible unit (./check C11 --replay <artifact>).",
    },
    "C14": {
        "technique": "rapidcheck-generated (alternative(s), shape, view programs, operation) cases; differential of every any_image / any_image_view operation against the same call on the held concrete object (index, dimensions, per-pixel memory identity or value; twin destination roots for algorithms), std::bad_cast + untouched destination for pairs a documentation-derived table calls incompatible",
        "level_text": "Exploration: 180k (quick) / 2.7M (thorough) generated cases over type lists {gray8, rgb8, bgr8, rgb8 planar, rgba8, gray16, rgb16} and {rgb8 planar, gray8, cmyk8, rgb8} (plus a sub-list for converting assignment), shapes 0..7. Transformations: all 10 flip/rotate/transpose/subimage/subsample overloads, nth_channel and three colour conversions, applied to view()/const_view() directly and after programs of up to 4 transformations. Algorithms: all 15 overloads of copy_pixels, copy_and_convert_pixels (with and without converter), equal_pixels, fill_pixels, for_each_pixel, resample_pixels over EVERY ordered pair of alternatives within and across the lists, on derived (stepped, flipped, transposed, offset) source and destination views, incl. aliasing operands for equal_pixels; whole destination root compared with a twin processed by the concrete algorithm. Value semantics: deep copy/assignment/equality of any_image (also from concrete images and sub-list variants), shallow copy/equality of any_image_view, recreate (both overloads, alignment) keeps the held type.",
        "level_note": "Differential against the concrete operation (that is what the property states); the concrete operations themselves are decided by C01-C04 and C09. equal_pixels is additionally compared with a per-pixel value comparison. resample is exercised with the nearest-neighbour sampler and integer translations only (C17 covers samplers).",
    },
    "C15": {
        "technique": "rapidcheck-generated (function, kernel, centre, boundary option, shape, type combination, placement) cases against the written-out correlation/convolution sums (64-bit exact for integer pixels, 1e-5 relative for float), source and destination in guard-page buffers, whole destination compared (decides 'untouched')",
        "level_text": "Exploration: 40k (quick) / 670k (thorough) cases: correlate_rows/cols and convolve_rows/cols with dynamic kernels of 1..9 taps and fixed kernels of 1/3/5/7 taps, EVERY centre position, all five boundary options plus the defaulted argument, widths and heights 0..12 (narrower than the kernel and empty included), seven pixel-type combinations (gray8/rgb8/rgb8 planar/gray16/gray8s with int32 accumulators, gray32f/rgb32f), source exact / with margin / with exactly the promised padding; reverse_kernel size, centre and values; detail::convolve_2d for kernels 1..6 with every centre against the zero-extended 2-D sum; extend_row/extend_col/extend_boundary x {padded, zero, constant} x 0..4 pixels.",
        "level_note": "The sums are recomputed independently per output channel; column variants are checked against the same sums on the other axis rather than against the row variant, so a fault common to both would still show.",
    },
    "C16": {
        "technique": "rapidcheck-generated (pixel type, shape, content kind, parameters) cases; per-pixel definitional oracles recomputed in the harness (documented comparison, max/min over the in-image neighbourhood, sorted replicated window), validity predicate for Otsu (two-valued output separable by one threshold per channel), lattice laws on the library's output; guard-page source and destination under ASan/UBSan",
        "level_text": "Exploration: 45k (quick) / 675k (thorough) cases over gray8, gray16, gray8s, gray16s, rgb8, rgb16s (+gray32f for morphology and median), shapes 0..9 incl. empty and non-square, six content kinds (random, constant, two-level, narrow range with ties, extremes, gradient). threshold_binary (both overloads) and threshold_truncate x 2 modes x 2 directions x defaulted arguments with T at the range ends, next to them, equal to an image value, random; threshold_optimal on all 8/16-bit types; dilate/erode with iterations 0..3, opening, closing with random symmetric structuring elements 1/3/5 (int and float kernels), erode<=src<=dilate, monotonicity, opening<=src<=closing, idempotence; median_filter k in {1,3,5,7}.",
        "level_note": "The reference for morphology/median is a direct per-pixel loop over doubles; channel values of all tested types are exactly representable. Otsu's statistical optimality is not checked.",
    },
    "C13": {
        "technique": "rapidcheck-generated valid files (GIL writers, hand-serialised BMP/TARGA/PNM variants, corpus files) and read recipes; differential of every read path against the full native read_image; guard-page destinations with identity tags",
        "level_text": "Exploration: 15k (quick) / 240k (thorough) (file, recipe) cases over 6 formats and 97 file variants (bottom-up/top-down, 1/4/8-bit palette, RLE4/RLE8, 16/24/32-bit BMP; ASCII and binary PNM; raw/RLE x both origins TARGA; PNG incl. PngSuite palette/tRNS/16-bit; strip/tile x none/LZW/packbits TIFF; JPEG). Per file: three device kinds, read_image_info, EVERY sub-rectangle for images up to 6x6 (11 sampled otherwise), read_view exact / too small in guard-page memory, read_and_convert_image/view to four pixel types vs color_convert of the native read, scanline rows, any_image.",
        "level_note": "Differential against the implementation's own full read: sound for a consistency property, blind to an error shared by all paths (C12 and the corpus twins p1/p4 cover that side).",
    },
}
