"""Which harness binaries decide which property.

target keys: name, src (under harness/), mode (asan | fast | fuzz | plain), rapidcheck, io, flags, libs,
subtargets (names that appear as "@name" in cases this binary can replay), exclusive (run alone: uses all cores),
runner (python module with run(ctx) for fuzz campaigns), timeout {tier: seconds}.
"""

PROPERTIES = {
    "C20": {
        "level": "exploration",
        "assumptions": [
            "ellipse centre is 1-based and positive as documented; centre 0 is outside the domain",
            "known finding F9b: for shallow lines (pixel extents W > 2H) the distance clause is checked against the algorithm's own bound 0.5+(W-H)/W instead of 1",
        ],
        "targets": [
            {"name": "c20_raster", "src": "c20_raster.cpp", "mode": "asan",
             "subtargets": ["line", "line_apply", "circle", "circle_apply", "ellipse", "ellipse_clip"]},
        ],
    },
    "C06": {
        "level": "exploration",
        "assumptions": [
            "channel models = the value models the library provides (8/16/32-bit signed and unsigned, float32_t, packed_channel_value<1..16>) plus packed channel references, whose conversions go through the same value converters",
            "'up to float32 precision' is read as an extra tolerance of 2^-22 of the destination range when a 32-bit or float channel is involved",
        ],
        "targets": [
            {"name": "c06_conv", "src": "c06_channel_convert.cpp", "mode": "fast", "flags": ['-DVERIF_TARGET_NAME="c06_conv"'], "subtargets": ["conv", "ref", "dref"], "exclusive": True},
            {"name": "c06_conv_san", "src": "c06_channel_convert.cpp", "mode": "asan", "flags": ['-DVERIF_TARGET_NAME="c06_conv_san"', "-DVERIF_STRIDE=16"], "subtargets": [], "threads": 8, "subset": True},
        ],
    },
    "C07": {
        "level": "exploration",
        "assumptions": [
            "32-bit channels are outside the multiply clause (the property quantifies multiply over 8/16-bit, packed and float channels); they are covered for channel_invert",
            "float: 'within float rounding' = 1.2e-7 absolute on [0,1]; invert on float32 is compared with the float expression 1.0f - x, involution within 1.2e-7",
        ],
        "targets": [
            {"name": "c07_mulinv", "src": "c07_channel_mul_inv.cpp", "mode": "fast", "flags": ['-DVERIF_TARGET_NAME="c07_mulinv"'], "subtargets": ["mul", "inv", "fmul", "finv"], "exclusive": True},
            {"name": "c07_mulinv_san", "src": "c07_channel_mul_inv.cpp", "mode": "asan", "flags": ['-DVERIF_TARGET_NAME="c07_mulinv_san"', "-DVERIF_STRIDE=16"], "subtargets": [], "threads": 8, "subset": True},
        ],
    },
    "C09": {
        "level": "exploration",
        "assumptions": [
            "neutral clause (black->black, white->white) is checked among rgb, opaque rgba and cmyk only, as stated; gray<->cmyk is left out (the source documents its own doubt there)",
            ">8-bit rgb->gray goes through float32: tolerance = one destination unit (or one source unit if coarser) + 4*2^-22 of the range",
        ],
        "targets": [
            {"name": "c09_sweep", "src": "c09_color_sweep.cpp", "mode": "fast", "flags": ['-DVERIF_TARGET_NAME="c09_sweep"'], "subtargets": ["rgb8", "mono", "rgba8", "cmyk8", "pair"], "exclusive": True},
            {"name": "c09_sweep_san", "src": "c09_color_sweep.cpp", "mode": "asan", "flags": ['-DVERIF_TARGET_NAME="c09_sweep_san"', "-DVERIF_STRIDE=16"], "subtargets": [], "threads": 8, "subset": True},
        ],
    },
    "C18": {
        "level": "exploration",
        "assumptions": [
            "no rgb->cmyka converter exists in the toolbox (only cmyka->rgba and cmyka->cmyka): the cmyka leg is rgb8 -> core cmyk -> append alpha -> toolbox cmyka->rgba",
            "tolerances are fixed: hsv/hsl/xyz 0, lab 1, ycbcr601/709 3 (studio-range / truncating quantisation), measured once and then frozen",
            "range tolerance 1e-4 on [0,1] channels (the statement's 'up to float32 precision'; hsl saturation reaches 1.00002)",
        ],
        "targets": [
            {"name": "c18_toolbox", "src": "c18_toolbox_color.cpp", "mode": "fast", "flags": ['-DVERIF_TARGET_NAME="c18_toolbox"'], "subtargets": ["rt", "hue", "huecont", "ga8", "ga16", "lum", "cmyka"], "exclusive": True},
            {"name": "c18_toolbox_san", "src": "c18_toolbox_color.cpp", "mode": "asan", "flags": ['-DVERIF_TARGET_NAME="c18_toolbox_san"', "-DVERIF_STRIDE=16"], "subtargets": [], "threads": 8, "subset": True},
        ],
    },
    "C01": {
        "level": "exploration",
        "assumptions": [
            "accesses are generated in range only; one-past-the-end iterators are formed (row_end, end()) but never dereferenced",
            "pointer arithmetic on the null pointer of an empty, never dereferenced view (UBSan pointer-overflow check) is not counted: that check is disabled",
            "caller-supplied buffers respect the pixel type's alignment (row size kept a multiple of alignof(pixel))",
        ],
        "targets": [{"name": "c01_access_g%d" % g, "src": "c01_access.cpp", "mode": "asan", "rapidcheck": True,
                     "flags": ["-DVL_GROUP=%d" % g, '-DVERIF_TARGET_NAME="c01_access_g%d"' % g], "subtargets": ["access"], "group": g, "match": ("cfg", 4, g)} for g in range(4)],
    },
    "C02": {
        "level": "exploration",
        "assumptions": [
            "subsampled_view steps are >= 1 (asserted precondition); sub-images are generated inside the source view",
            "color_converted tails are generated only for colour spaces with a default converter; nth/kth_channel tails only for homogeneous pixels",
        ],
        "targets": [{"name": "c02_views_g%d" % g, "src": "c02_views.cpp", "mode": "asan", "rapidcheck": True,
                     "flags": ["-DVL_GROUP=%d" % g, '-DVERIF_TARGET_NAME="c02_views_g%d"' % g], "subtargets": ["views"], "group": g, "match": ("cfg", 4, g)} for g in range(4)] +
                   [{"name": "c02_virtual", "src": "c02_virtual.cpp", "mode": "asan", "rapidcheck": True, "subtargets": ["virtual"]}],
    },
    "C03": {
        "level": "exploration",
        "assumptions": [
            "iterators are moved inside [begin, end] only; the end position is formed but never dereferenced",
            "is_1d_traversable: 'next row' of the last row is end().x(), the sentinel the 1-D fast paths run to",
            "dereference adaptors (colour-converted views) return values: 'same pixel' is decided by value there, by address / bit position elsewhere",
        ],
        "targets": [{"name": "c03_nav_g%d" % g, "src": "c03_navigation.cpp", "mode": "asan", "rapidcheck": True,
                     "flags": ["-DVL_GROUP=%d" % g, '-DVERIF_TARGET_NAME="c03_nav_g%d"' % g], "subtargets": ["nav"], "group": g, "match": ("cfg", 4, g)} for g in range(4)],
    },
    "C04": {
        "level": "exploration",
        "assumptions": [
            "source and destination have equal dimensions (asserted precondition) and do not overlap",
            "functors given to for_each/generate/transform are the harness's own; order is observed through the values they write",
        ],
        "targets": [{"name": "c04_algo_g%d" % g, "src": "c04_algorithms.cpp", "mode": "asan", "rapidcheck": True,
                     "flags": ["-DC04_GROUP=%d" % g, '-DVERIF_TARGET_NAME="c04_algo_g%d"' % g], "subtargets": ["algo"], "group": g, "match": ("pair", 8, g)} for g in range(8)],
    },
    "C10": {
        "level": "fault_enumeration",
        "assumptions": [
            "swap (and recreate with an allocator argument) between images whose non-propagating allocators compare unequal is outside the domain (undefined by the container requirements; GIL asserts it)",
            "after an injected failure the target may hold its old value, the new value or be empty (basic guarantee): only structural validity, the ledger and the element live-set are checked, and the history continues",
            "contents after recreate without a fill value are unspecified for trivial pixel types and are not compared",
        ],
        "targets": [{"name": "c10_hist_k%d" % k, "src": "c10_image_container.cpp", "mode": "asan", "rapidcheck": True,
                     "flags": ["-DC10_KIND=%d" % k, '-DVERIF_TARGET_NAME="c10_hist_k%d"' % k], "subtargets": ["hist"], "kind": k, "match": ("kind", None, k)} for k in range(7)],
    },
    "C05": {
        "level": "exploration",
        "assumptions": [
            "pairs are formed only between compatible pixels (same colour space, same channel value types), as the operations require",
            "channel_type / operator[] / raw memory order are checked for homogeneous pixels only (heterogeneous packed pixels have no single channel type)",
        ],
        # four binaries (groups gi % 4 == k): the const/non-const overload matrix makes one TU compile for four minutes
        "targets": [{"name": "c05_pixels_p%d" % k, "src": "c05_pixel_semantics.cpp", "mode": "asan",
                     "flags": ["-DC05_PARTS=4", "-DC05_PART=%d" % k, '-DVERIF_TARGET_NAME="c05_pixels_p%d"' % k], "subtargets": ["pair", "single"], "match": ("group", 4, k)} for k in range(4)],
    },
    "C08": {
        "level": "exploration",
        "assumptions": [
            "only carriers the library itself chooses or documents are used (bit_aligned_image*_type picks min_fast_uint<bit_size+7>; packed_pixel_type in a 16/32-bit field)",
            "bit numbering is little-endian within the carrier, as the reader defines it",
        ],
        "targets": [
            {"name": "c08_bits", "src": "c08_packed_bits.cpp", "mode": "fast", "flags": ['-DVERIF_TARGET_NAME="c08_bits"'], "subtargets": ["ba", "iter", "packed16", "refs"], "exclusive": True},
            {"name": "c08_bits_san", "src": "c08_packed_bits.cpp", "mode": "asan", "flags": ['-DVERIF_TARGET_NAME="c08_bits_san"', "-DVERIF_STRIDE=4"], "subtargets": [], "threads": 8, "subset": True},
        ],
    },
    "C12": {
        "level": "exploration",
        "assumptions": [
            "pixel types are taken from each format's *_write_support table; 0-sized images are outside the statement",
            "the PNM and TIFF writers do not compile for step (flipped / sub-sampled / transposed) views of bit-aligned pixels: only whole images and sub-views are generated for gray1/2/4 in those formats",
            "JPEG: quality 100; bounds frozen after calibration on the pinned tree: constant images 1 level, gray 6, rgb/cmyk gradients 48, rgb/cmyk noise unbounded by chroma subsampling (only dimensions are meaningful there)",
            "known finding K12-tiff-alpha: for alpha-carrying TIFF pixels in strips / interior tiles the expected value is premultiply(original)",
            "a FILE* handed to GIL is adopted (closed) by the device, as file_stream_device documents by construction",
        ],
        "targets": [{"name": "c12_rt_g%d" % g, "src": "c12_io_roundtrip.cpp", "mode": "asan", "rapidcheck": True, "io": True,
                     "flags": ["-DC12_GROUP=%d" % g, "-DC12_NGROUPS=4", '-DVERIF_TARGET_NAME="c12_rt_g%d"' % g], "subtargets": ["rt"], "group": g, "match": ("entry", 4, g)} for g in range(4)],
    },
    "C11": {
        "level": "exploration",
        "assumptions": [
            "a sub-rectangle is chosen inside the dimensions a separate read_image_info reports for the same bytes; rectangles reaching outside the image are a caller error the statement does not cover",
            "memory that libpng/libtiff/libjpeg or a reader still owns when an exception leaves through their longjmp error path is a leak, not one of the outcomes the statement forbids: LeakSanitizer is off for C11",
            "operator new is capped at 64 MiB in the harness, so a header declaring a huge image ends in std::bad_alloc/length_error (a C++ exception) instead of exhausting the sandbox",
            "'uninitialised bytes from a short read' is decided through the truncation oracle (a strict prefix that lacks at least one whole sample must throw for the decoders GIL implements itself); MSan is not usable here (no instrumented libstdc++/codec libraries)",
            "time: every case runs under a watchdog (120 s) and the scanline loop is driven within a 64 MB row budget; a case above the limit is a violation, machine load below it is not measured",
        ],
        "targets": [{"name": "c11_mut_f%d" % f, "src": "c11_io_robustness.cpp", "mode": "asan", "io": True, "asan_options": "detect_leaks=0",
                     "flags": ["-DC11_FMT=%d" % f, '-DVERIF_TARGET_NAME="c11_mut_f%d"' % f], "subtargets": ["mut"], "fmt": f, "match": ("fmt", None, f), "threads": 1} for f in range(6)] +
                   [{"name": "c11_fuzz_f%d" % f, "src": "c11_io_robustness.cpp", "mode": "fuzz", "io": True, "asan_options": "detect_leaks=0", "runner": "c11_fuzz_runner",
                     "flags": ["-DC11_LIBFUZZER", "-DC11_FMT=%d" % f, '-DVERIF_TARGET_NAME="c11_fuzz_f%d"' % f], "fmt": f,
                     "budget": {"quick": 75, "thorough": 1500}} for f in range(6)],
    },
    "C14": {
        "level": "exploration",
        "assumptions": [
            "binary algorithms are called on views of equal dimensions (their documented precondition); operands of copy/convert/fill/resample never overlap, only equal_pixels is also run on two views of the same image",
            "'the corresponding alternative' is decided by type: where a result list repeats a type (nth_channel_view of rgb8 and bgr8 views is the same gray8 step view) any alternative of that type is accepted, otherwise the index must match",
            "compatibility of alternatives is taken from the documentation rule (same colour space, pairwise compatible channel types, any layout) written as a table in the harness",
        ],
        "targets": [{"name": "c14_p%d" % k, "src": "c14_any_image.cpp", "mode": "asan", "rapidcheck": True,
                     "flags": ["-DC14_PART=%d" % k, '-DVERIF_TARGET_NAME="c14_p%d"' % k], "subtargets": (["transform"] if k == 0 else ["value"] if k == 7 else ["pair"]), "match": ("part", None, k)} for k in range(8)],
    },
    "C15": {
        "level": "exploration",
        "assumptions": [
            "kernel values and contents are chosen so that every exact sum fits the destination channel (an out-of-range float or integer to channel conversion is the caller's business, not the property's)",
            "extend_padded: the source is a sub-view of a root that holds exactly left/right (top/bottom) kernel extent of padding; nothing beyond it is accessible",
            "extend_constant on an empty view is not generated for extend_row/col/boundary (no edge pixel exists, the policy describes nothing)",
            "convolve_2d lives in namespace detail; it is exercised with small integer values so that its float accumulator is exact",
        ],
        "targets": [{"name": "c15_conv", "src": "c15_convolve.cpp", "mode": "asan", "rapidcheck": True, "flags": ['-DVERIF_TARGET_NAME="c15_conv"'], "subtargets": ["conv", "conv2d", "extend"]}],
    },
    "C16": {
        "level": "exploration",
        "assumptions": [
            "float32 channels are not a provided configuration of threshold_binary/threshold_truncate (their lambdas do not compile for scoped_channel_value); thresholds are exercised on the 8/16-bit signed and unsigned types",
            "'symmetric structuring element' = invariant under transposition and point reflection, odd size, centre element set (the library always includes the centre pixel)",
            "threshold_optimal is only required to be a single-threshold result per channel, not the true Otsu threshold (the statement asks no more)",
            "source and destination have the same pixel type and dimensions (threshold parameters are typed by the destination channel; mixed signedness would compare converted values)",
        ],
        "targets": [{"name": "c16_tmm", "src": "c16_threshold_morph.cpp", "mode": "asan", "rapidcheck": True, "flags": ['-DVERIF_TARGET_NAME="c16_tmm"'], "subtargets": ["thresh", "otsu", "morph", "median"]}],
    },
    "C17": {
        "level": "exploration",
        "assumptions": [
            "sample points stay within [-2.5, n+1.5] per axis (the quantifier's window); converting a coordinate beyond the range of ptrdiff_t is outside the statement",
            "'surrounding pixels' of a point within one pixel of the border are the clamped neighbours (the sampler's documented border cases); nearest-neighbour ties at exact half-way points may round either way when the point is within 1e-6 of the tie",
            "integral results may differ from exact bilinear interpolation by at most 1 (0.5 after the rounding fix plus float error); float32 channels by 1e-5",
            "inverse is checked for |det| >= 0.25 with tolerances scaled by 1/|det|",
        ],
        "targets": [{"name": "c17_sampling", "src": "c17_sampling.cpp", "mode": "asan", "rapidcheck": True, "flags": ['-DVERIF_TARGET_NAME="c17_sampling"'], "subtargets": ["sample", "resample", "affine"]}],
    },
    "C19": {
        "level": "exploration",
        "assumptions": [
            "'divided by the bin width' is C++ integer division of the channel value (truncation towards zero for negative channels)",
            "masks have exactly the view's dimensions; limit boxes are representable in the histogram's key types",
            "limits are bin keys (the parameters have the histogram's key_type and are documented as 'limit on the values in histogram'; fill() compares them with channel / bin width), for every bin width",
            "dense pre-fill is exercised for 1-D keys inside an explicit box of at most 301 keys (the library creates one bin per key; for 16/32-bit key types the defaulted box is the whole type range); empty pre-filled bins are not bins 'that were counted' and may exist on either side",
            "sub_histogram over a key range is exercised with one selected axis (the library compares multi-axis ranges lexicographically, which the statement does not settle)",
            "normalize is exercised on histograms with a positive total; the std fillers are compared on gray views and through the library's own gray conversion for rgb8",
        ],
        "targets": [{"name": "c19_hist", "src": "c19_histogram.cpp", "mode": "asan", "rapidcheck": True, "flags": ['-DVERIF_TARGET_NAME="c19_hist"'], "subtargets": ["history", "std"]}],
    },
    "C13": {
        "level": "exploration",
        "assumptions": [
            "the reference is the library's own full read_image in the file's native type (the property is a consistency statement); an error common to all paths is C12's business",
            "sub-rectangles are generated inside the image only; a destination view LARGER than the image is not covered by the statement (the formats disagree on it) and is not generated",
            "scanline readers reject some variants with an exception (TARGA RLE / top origin, tiled TIFF, RLE BMP): counted, not compared",
            "the native type of a file is found by trial (colour types first: win32 palette BMPs are rgba8, OS/2 and RLE palette BMPs rgb8, as is_allowed() defines)",
        ],
        "targets": [{"name": "c13_agree_f%d" % f, "src": "c13_io_consistency.cpp", "mode": "asan", "rapidcheck": True, "io": True,
                     "flags": ["-DC13_FMT=%d" % f, '-DVERIF_TARGET_NAME="c13_agree_f%d"' % f], "subtargets": ["agree"], "fmt": f} for f in range(6)],
    },
}
