"""Which harness binaries decide which property.

target keys: name, src (under harness/), mode (asan | fast | fuzz | plain), rapidcheck, io, flags, libs,
subtargets (names that appear as "@name" in cases this binary can replay), exclusive (run alone: uses all cores),
runner (python module with run(ctx) for fuzz campaigns), timeout {tier: seconds}.
"""

PROPERTIES = {
    "C20": {
        "level": "exploration",
        "assumptions": [
            "ellipse centre is 1-based and positive as documented; centre 0 is outside the domain",
            "known finding F9b: for shallow lines (pixel extents W > 2H) the distance clause is checked against the algorithm's own bound 0.5+(W-H)/W instead of 1",
        ],
        "targets": [
            {"name": "c20_raster", "src": "c20_raster.cpp", "mode": "asan",
             "subtargets": ["line", "line_apply", "circle", "circle_apply", "ellipse", "ellipse_clip"]},
        ],
    },
    "C06": {
        "level": "exploration",
        "assumptions": [
            "channel models = the value models the library provides (8/16/32-bit signed and unsigned, float32_t, packed_channel_value<1..16>) plus packed channel references, whose conversions go through the same value converters",
            "'up to float32 precision' is read as an extra tolerance of 2^-22 of the destination range when a 32-bit or float channel is involved",
        ],
        "targets": [
            {"name": "c06_conv", "src": "c06_channel_convert.cpp", "mode": "fast", "flags": ['-DVERIF_TARGET_NAME="c06_conv"'], "subtargets": ["conv", "ref", "dref"], "exclusive": True},
            {"name": "c06_conv_san", "src": "c06_channel_convert.cpp", "mode": "asan", "flags": ['-DVERIF_TARGET_NAME="c06_conv_san"', "-DVERIF_STRIDE=16"], "subtargets": [], "threads": 8, "subset": True},
        ],
    },
    "C07": {
        "level": "exploration",
        "assumptions": [
            "32-bit channels are outside the multiply clause (the property quantifies multiply over 8/16-bit, packed and float channels); they are covered for channel_invert",
            "float: 'within float rounding' = 1.2e-7 absolute on [0,1]; invert on float32 is compared with the float expression 1.0f - x, involution within 1.2e-7",
        ],
        "targets": [
            {"name": "c07_mulinv", "src": "c07_channel_mul_inv.cpp", "mode": "fast", "flags": ['-DVERIF_TARGET_NAME="c07_mulinv"'], "subtargets": ["mul", "inv", "fmul", "finv"], "exclusive": True},
            {"name": "c07_mulinv_san", "src": "c07_channel_mul_inv.cpp", "mode": "asan", "flags": ['-DVERIF_TARGET_NAME="c07_mulinv_san"', "-DVERIF_STRIDE=16"], "subtargets": [], "threads": 8, "subset": True},
        ],
    },
}
