"""Which harness binaries decide which property.

target keys: name, src (under harness/), mode (asan | fast | fuzz | plain), rapidcheck, io, flags, libs,
subtargets (names that appear as "@name" in cases this binary can replay), exclusive (run alone: uses all cores),
runner (python module with run(ctx) for fuzz campaigns), timeout {tier: seconds}.
"""

PROPERTIES = {
    "C20": {
        "level": "exploration",
        "assumptions": [
            "ellipse centre is 1-based and positive as documented; centre 0 is outside the domain",
            "known finding F9b: for shallow lines (pixel extents W > 2H) the distance clause is checked against the algorithm's own bound 0.5+(W-H)/W instead of 1",
        ],
        "targets": [
            {"name": "c20_raster", "src": "c20_raster.cpp", "mode": "asan",
             "subtargets": ["line", "line_apply", "circle", "circle_apply", "ellipse", "ellipse_clip"]},
        ],
    },
}
