// C02 (virtual locator kind): view transformations over a view whose pixels are computed by a functor of the coordinates.
// The functor returns the identity tag of the coordinate it is called with, so a derived view is correct exactly when every
// access path yields the tag of the root coordinate the documented formulas give (affine model of viewlab.hpp).
#include "common/rcx.hpp"
#include "common/viewlab.hpp"

namespace gil = boost::gil;
using verif::Case;
using verif::i64;
using vl::Model;
using vl::Op;
using vl::Prog;

template <class P> struct TagFn
{
    using const_t = TagFn;
    using value_type = P;
    using reference = value_type;
    using const_reference = value_type;
    using argument_type = gil::point_t;
    using result_type = reference;
    static constexpr bool is_mutable = false;
    std::uint64_t seed = 0;
    TagFn() = default;
    explicit TagFn(std::uint64_t s) : seed(s) {}
    result_type operator()(gil::point_t const& p) const
    {
        P r;
        for (int k = 0; k < vl::nchan<P>(); ++k) vl::set_ch(r, k, vl::tag_for(r, seed, p.x, p.y, k));
        return r;
    }
};

template <class P> static void run_one(Case const& c)
{
    using Fn = TagFn<P>;
    using loc_t = gil::virtual_2d_locator<Fn, false>;
    using view_t = gil::image_view<loc_t>;
    i64 w = c.get("w"), h = c.get("h"), ox = c.get("ox"), oy = c.get("oy"), sx = c.get("sx"), sy = c.get("sy");
    std::uint64_t seed = static_cast<std::uint64_t>(c.get("seed"));
    Fn fn(seed);
    view_t root(gil::point_t(w, h), loc_t(gil::point_t(ox, oy), gil::point_t(sx, sy), fn));
    Prog prog = vl::prog_from(c.list("prog"));
    Model m;
    m.w = w; m.h = h;
    // parameters are fitted to the running dimensions so that every generated program is valid
    for (auto& o : prog)
    {
        auto md = [](i64 v, i64 n) { return n <= 0 ? 0 : ((v % n) + n) % n; };
        if (o.kind == vl::OP_SUBIMAGE) { o.a = md(o.a, m.w + 1); o.b = md(o.b, m.h + 1); o.c = md(o.c, m.w - o.a + 1); o.d = md(o.d, m.h - o.b + 1); }
        if (o.kind == vl::OP_SUBSAMPLE) { o.a = 1 + md(o.a, 3); o.b = 1 + md(o.b, 3); }
        VCHECK(m.apply(o), "harness: program step invalid");
    }
    std::string trace;
    for (auto const& o : prog) trace += std::string(" ") + vl::op_name(o.kind);
    auto want = [&](i64 x, i64 y) { i64 rx, ry; m.root(x, y, rx, ry); return fn(gil::point_t(ox + rx * sx, oy + ry * sy)); };
    vl::run_ops(root, prog, 0, [&](auto const& v) {
        using V = std::decay_t<decltype(v)>;
        VCHECK(v.width() == m.w && v.height() == m.h, "virtual view:", trace, ": dimensions ", v.width(), "x", v.height(), ", the formulas give ", m.w, "x", m.h);
        VCHECK(static_cast<i64>(v.size()) == m.w * m.h, "virtual view:", trace, ": size()");
        for (i64 y = 0; y < m.h; ++y)
            for (i64 x = 0; x < m.w; ++x)
            {
                P e = want(x, y);
                P a = v(x, y);
                VCHECK(a == e, "virtual view:", trace, ": (", x, ",", y, ") is not the source pixel the documented formula gives");
                P b = v.row_begin(y)[x], cc = v.col_begin(x)[y], d = *v.xy_at(x, y), f = v.begin()[y * m.w + x], g = *v.at(x, y);
                VCHECK(b == e && cc == e && d == e && f == e && g == e, "virtual view:", trace, ": row_begin/col_begin/xy_at/begin/at disagree with operator() at (", x, ",", y, ")");
            }
        // a converting and a channel view on top of the derived view
        if (m.w > 0 && m.h > 0)
        {
            auto cv = gil::color_converted_view<gil::gray8_pixel_t>(v);
            auto nv = gil::nth_channel_view(v, static_cast<int>(c.get("chan") % vl::nchan<P>()));
            VCHECK(cv.dimensions() == v.dimensions() && nv.dimensions() == v.dimensions(), "virtual view:", trace, ": dimensions of color_converted / nth_channel view");
            for (i64 y = 0; y < m.h; ++y)
                for (i64 x = 0; x < m.w; ++x)
                {
                    P e = want(x, y);
                    gil::gray8_pixel_t ge;
                    gil::color_convert(e, ge);
                    gil::gray8_pixel_t gg = cv(x, y);
                    VCHECK(gg == ge, "virtual view:", trace, ": color_converted_view(", x, ",", y, ")");
                    typename std::decay_t<decltype(nv)>::value_type ne = nv(x, y);
                    VCHECK(vl::get_ch(ne, 0) == vl::get_ch(e, static_cast<int>(c.get("chan") % vl::nchan<P>())), "virtual view:", trace, ": nth_channel_view(", x, ",", y, ")");
                }
        }
        (void)sizeof(V);
    });
}
static void run_virtual(Case const& c)
{
    switch (c.get("type") % 3)
    {
    case 0: run_one<gil::rgb8_pixel_t>(c); break;
    case 1: run_one<gil::gray16_pixel_t>(c); break;
    default: run_one<gil::rgba8_pixel_t>(c); break;
    }
}
static Case gen_virtual()
{
    Case c;
    c.set("type", verif::pick(0, 2));
    c.set("w", verif::weighted({2, 8}) == 0 ? verif::pick(0, 1) : verif::pick(2, 9));
    c.set("h", verif::weighted({2, 8}) == 0 ? verif::pick(0, 1) : verif::pick(2, 9));
    c.set("ox", verif::pick(-5, 5)); c.set("oy", verif::pick(-5, 5)); c.set("sx", verif::one_of<i64>({1, 1, 2, 3, -1})); c.set("sy", verif::one_of<i64>({1, 1, 2, -2}));
    std::vector<i64> p;
    int n = static_cast<int>(verif::pick(0, 4));
    for (int i = 0; i < n; ++i) { p.push_back(verif::pick(0, vl::OP_COUNT - 1)); for (int j = 0; j < 4; ++j) p.push_back(verif::pick(0, 9)); }
    c.set("prog", p);
    c.set("chan", verif::pick(0, 3));
    c.set("seed", verif::seed64());
    return c;
}

void verif_replay(Case const& c) { run_virtual(c); }
void verif_run(verif::Args const& a, verif::Evidence& ev)
{
    ev.rule = "virtual_2d_locator root (functor returning the identity tag of the coordinate; origin -5..5, steps {1,2,3,-1,-2}), rgb8/gray16/rgba8, shapes 0..9, programs of up to 4 of flip/transpose/rotate/subimage/subsample "
              "-> dimensions and EVERY pixel through operator(), row_begin, col_begin, xy_at, at, begin()[i] equal the functor at the model's root coordinate; color_converted_view and nth_channel_view on top. "
              "non-trivial: non-empty view and non-empty program; distinct = all keys but the tag seed.";
    verif::rc_search(ev, a, "virtual", a.thorough() ? 900000 : 20000, 60, gen_virtual, run_virtual, [](Case const& c) { return c.get("w") > 0 && c.get("h") > 0 && !c.list("prog").empty(); },
                     {"type", "w", "h", "ox", "oy", "sx", "sy", "prog", "chan"});
}
VERIF_MAIN("c02_virtual")
