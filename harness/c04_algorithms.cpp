// C04 — pixel algorithms equal the per-pixel loop for every layout pair, and touch nothing else.
// Engine: rapidcheck (pair of organisations, shapes, two view programs with equal result dimensions, contents, algorithm).
// Oracle: the obvious (x,y) loop using only view(x,y) and pixel assignment, executed on an identically laid out model buffer;
// afterwards the real destination buffer (guard-page memory: pixels, padding, neighbouring pixels, shared bits) must be
// byte-identical to the model buffer. equal_pixels: metamorphic single-channel flips at every position.
#include "common/rcx.hpp"
#include "common/viewlab.hpp"

using namespace vl;
namespace gil = boost::gil;

// ------------------------------------------------------------------------------------------------ pairs (src cfg, dst cfg)
struct PairDef { int s, d; bool compatible; };
static constexpr PairDef PAIRS[] = {
    // compatible pairs: same colour space and channel type, any layout / planarity / packing
    {3, 3, true}, {3, 4, true}, {4, 3, true}, {3, 11, true}, {11, 3, true}, {11, 11, true}, {4, 11, true}, {11, 4, true},
    {5, 5, true}, {5, 6, true}, {6, 5, true}, {5, 12, true}, {12, 5, true}, {12, 12, true}, {6, 12, true},
    {0, 0, true}, {1, 1, true}, {2, 2, true}, {7, 7, true}, {8, 8, true}, {9, 9, true}, {10, 10, true}, {13, 13, true},
    {14, 14, true}, {14, 21, true}, {21, 14, true}, {21, 21, true}, {15, 15, true}, {16, 16, true},
    {17, 17, true}, {18, 18, true}, {19, 19, true}, {20, 20, true}, {22, 22, true}, {23, 23, true}, {24, 24, true}, {25, 25, true},
    {26, 26, true}, {27, 27, true},
    // converting pairs (copy_and_convert_pixels / color_converted_view only)
    {3, 0, false}, {0, 3, false}, {3, 5, false}, {5, 3, false}, {8, 3, false}, {3, 9, false}, {7, 3, false}, {3, 7, false},
    {14, 3, false}, {21, 3, false}, {17, 0, false}, {11, 4, false}, {2, 0, false}, {12, 0, false}, {4, 7, false}, {0, 17, false}, {3, 14, false}, {6, 11, false}};
constexpr int NPAIRS = sizeof(PAIRS) / sizeof(PAIRS[0]);

enum Algo { AL_COPY = 0, AL_FILL, AL_FOR_EACH, AL_GENERATE, AL_TRANSFORM1, AL_TRANSFORM2, AL_FOR_EACH_POS, AL_TRANSFORM_POS, AL_EQUAL, AL_CONVERT, AL_IMAGE_EQ, AL_TRANSFORM_POS2, AL_COUNT };
static const char* algo_name(int a)
{
    static const char* n[] = {"copy_pixels", "fill_pixels", "for_each_pixel", "generate_pixels", "transform_pixels", "transform_pixels2", "for_each_pixel_position", "transform_pixel_positions", "equal_pixels",
                              "copy_and_convert_pixels", "image==", "transform_pixel_positions2"};
    return (a >= 0 && a < AL_COUNT) ? n[a] : "?";
}

struct Side
{
    int rk;
    i64 rw, rh, ap;
    Prog prog;
};

template <class Cfg, class K> static void with_view(Side const& s, std::uint64_t seed, K&& k)
{
    with_root<Cfg>(s.rk, s.rw, s.rh, s.ap, seed, [&](auto const& root, RootInfo const& info) {
        Model m;
        m.w = root.width();
        m.h = root.height();
        if (!m.apply_all(s.prog)) return;
        run_ops(root, s.prog, 0, [&](auto const& v) { k(v, info, root); });
    });
}

static void compare_buffers(RootInfo const& a, RootInfo const& b, const char* what)
{
    VCHECK(a.size == b.size, "internal: buffer sizes differ");
    for (std::size_t i = 0; i < a.size; ++i)
        VCHECK(a.base[i] == b.base[i], what, ": destination buffer differs from the per-pixel-loop model at byte", i, "of", a.size, "(row bytes", a.row_bytes, "): got", int(a.base[i]), "want", int(b.base[i]));
}

template <class P> static P value_from(std::uint64_t seed, i64 i)
{
    P p;
    for (int k = 0; k < nchan<P>(); ++k) set_ch(p, k, tag_in_range(tag_hash(seed, i, 17, k), ch_lo(p, k), ch_hi(p, k), ch_is_float(p, k)));
    return p;
}
template <class P> static P inverted(P p)
{
    for (int k = 0; k < nchan<P>(); ++k) set_ch(p, k, ch_lo(p, k) + ch_hi(p, k) - get_ch(p, k));
    return p;
}

// ------------------------------------------------------------------------------------------------ one case for a (SrcCfg, DstCfg)
template <class SC, class DC, bool Compatible> static void run_pair(Case const& c, Side const& ss, Side const& ds)
{
    std::uint64_t seed = static_cast<std::uint64_t>(c.get("seed"));
    int algo = static_cast<int>(c.get("algo"));
    using dst_value_t = typename DC::image_t::value_type;

    with_view<SC>(ss, seed ^ 0x1111, [&](auto const& sv, RootInfo const&, auto const&) {
        // two identically laid out destinations: A is given to the library, B to the per-pixel loop
        with_view<DC>(ds, seed ^ 0x2222, [&](auto const& da, RootInfo const& ia, auto const& root_a) {
            with_view<DC>(ds, seed ^ 0x2222, [&](auto const& db, RootInfo const& ib, auto const&) {
                VCHECK(sv.dimensions() == da.dimensions() && da.dimensions() == db.dimensions(), "internal: generator produced unequal dimensions", sv.width(), sv.height(), da.width(), da.height());
                i64 w = da.width(), h = da.height();
                using SV = std::decay_t<decltype(sv)>;
                using DV = std::decay_t<decltype(da)>;
                compare_buffers(ia, ib, "before");
                if constexpr (Compatible)
                {
                    switch (algo)
                    {
                    case AL_COPY:
                        gil::copy_pixels(sv, da);
                        for (i64 y = 0; y < h; ++y) for (i64 x = 0; x < w; ++x) db(x, y) = sv(x, y);
                        compare_buffers(ia, ib, "copy_pixels");
                        break;
                    case AL_FILL:
                    {
                        // the fill value has the destination's pixel type or the (compatible, possibly differently ordered / stored) source type
                        using src_value_t = typename SC::image_t::value_type;
                        if (seed & 1)
                        {
                            src_value_t val = value_from<src_value_t>(seed, 5);
                            gil::fill_pixels(da, val);
                            for (i64 y = 0; y < h; ++y) for (i64 x = 0; x < w; ++x) db(x, y) = val;
                            compare_buffers(ia, ib, "fill_pixels (value of the source configuration's pixel type)");
                        }
                        else
                        {
                            dst_value_t val = value_from<dst_value_t>(seed, 5);
                            gil::fill_pixels(da, val);
                            for (i64 y = 0; y < h; ++y) for (i64 x = 0; x < w; ++x) db(x, y) = val;
                            compare_buffers(ia, ib, "fill_pixels");
                        }
                        break;
                    }
                    case AL_FOR_EACH:
                    {
                        i64 n = 0;
                        gil::for_each_pixel(da, [&](auto&& p) { p = value_from<dst_value_t>(seed, n++); });
                        i64 m = 0;
                        for (i64 y = 0; y < h; ++y) for (i64 x = 0; x < w; ++x) db(x, y) = value_from<dst_value_t>(seed, m++);
                        VCHECK(n == w * h, "for_each_pixel called the functor", n, "times for", w * h, "pixels");
                        compare_buffers(ia, ib, "for_each_pixel (row-major order, each pixel once)");
                        break;
                    }
                    case AL_GENERATE:
                    {
                        i64 n = 0;
                        gil::generate_pixels(da, [&] { return value_from<dst_value_t>(seed, n++); });
                        i64 m = 0;
                        for (i64 y = 0; y < h; ++y) for (i64 x = 0; x < w; ++x) db(x, y) = value_from<dst_value_t>(seed, m++);
                        VCHECK(n == w * h, "generate_pixels called the generator", n, "times for", w * h, "pixels");
                        compare_buffers(ia, ib, "generate_pixels (row-major order)");
                        break;
                    }
                    case AL_TRANSFORM1:
                    {
                        gil::transform_pixels(sv, da, [](auto const& p) { return inverted(dst_value_t(p)); });
                        for (i64 y = 0; y < h; ++y) for (i64 x = 0; x < w; ++x) db(x, y) = inverted(dst_value_t(sv(x, y)));
                        compare_buffers(ia, ib, "transform_pixels (1 source)");
                        break;
                    }
                    case AL_TRANSFORM2:
                    {
                        // second source: the destination's own type, read-only, either a whole image (contiguous) or a window of a larger
                        // image (rows not adjacent in memory), whatever the organisation of the first source and of the destination
                        i64 mx = (seed >> 3) & 1 ? 1 + static_cast<i64>((seed >> 5) & 3) : 0, my = (seed >> 4) & 1;
                        gil::image<dst_value_t, false> second(w + 2 * mx, h + 2 * my);
                        for (i64 y = 0; y < second.height(); ++y) for (i64 x = 0; x < second.width(); ++x) gil::view(second)(x, y) = value_from<dst_value_t>(seed ^ 77, y * second.width() + x);
                        auto s2 = gil::subimage_view(gil::const_view(second), mx, my, w, h);
                        auto f = [](auto const& p, auto const& q) { dst_value_t r(p); if (get_ch(q, 0) > (ch_lo(q, 0) + ch_hi(q, 0)) / 2) r = inverted(r); return r; };
                        gil::transform_pixels(sv, s2, da, f);
                        for (i64 y = 0; y < h; ++y) for (i64 x = 0; x < w; ++x) db(x, y) = f(sv(x, y), s2(x, y));
                        compare_buffers(ia, ib, mx ? "transform_pixels (2 sources, the second a window of a larger image)" : "transform_pixels (2 sources)");
                        break;
                    }
                    case AL_FOR_EACH_POS:
                    {
                        i64 n = 0;
                        gil::for_each_pixel_position(da, [&](auto const& loc) { *loc = value_from<dst_value_t>(seed, n++); });
                        i64 m = 0;
                        for (i64 y = 0; y < h; ++y) for (i64 x = 0; x < w; ++x) db(x, y) = value_from<dst_value_t>(seed, m++);
                        VCHECK(n == w * h, "for_each_pixel_position called the functor", n, "times for", w * h, "pixels");
                        compare_buffers(ia, ib, "for_each_pixel_position");
                        break;
                    }
                    case AL_TRANSFORM_POS:
                    {
                        // the functor reads the pixel and, when it exists, its left neighbour through the locator
                        i64 n = 0;
                        auto f = [&](auto const& loc) {
                            i64 x = n % (w ? w : 1);
                            ++n;
                            dst_value_t r(*loc);
                            if (x > 0 && get_ch(loc(-1, 0), 0) > get_ch(*loc, 0)) r = inverted(r);
                            return r;
                        };
                        gil::transform_pixel_positions(sv, da, f);
                        for (i64 y = 0; y < h; ++y) for (i64 x = 0; x < w; ++x)
                        {
                            dst_value_t r(sv(x, y));
                            if (x > 0 && get_ch(sv(x - 1, y), 0) > get_ch(sv(x, y), 0)) r = inverted(r);
                            db(x, y) = r;
                        }
                        compare_buffers(ia, ib, "transform_pixel_positions (1 source)");
                        break;
                    }
                    case AL_TRANSFORM_POS2:
                    {
                        gil::image<dst_value_t, false> second(w, h);
                        for (i64 y = 0; y < h; ++y) for (i64 x = 0; x < w; ++x) gil::view(second)(x, y) = value_from<dst_value_t>(seed ^ 99, y * w + x);
                        auto f = [](auto const& l1, auto const& l2) { dst_value_t r(*l1); if (get_ch(*l2, 0) > (ch_lo(*l2, 0) + ch_hi(*l2, 0)) / 2) r = inverted(r); return r; };
                        gil::transform_pixel_positions(sv, gil::const_view(second), da, f);
                        for (i64 y = 0; y < h; ++y) for (i64 x = 0; x < w; ++x)
                        {
                            dst_value_t r(sv(x, y));
                            auto&& q = gil::const_view(second)(x, y);
                            if (get_ch(q, 0) > (ch_lo(q, 0) + ch_hi(q, 0)) / 2) r = inverted(r);
                            db(x, y) = r;
                        }
                        compare_buffers(ia, ib, "transform_pixel_positions (2 sources)");
                        break;
                    }
                    case AL_EQUAL:
                    {
                        for (i64 y = 0; y < h; ++y) for (i64 x = 0; x < w; ++x) da(x, y) = sv(x, y);
                        VCHECK(gil::equal_pixels(sv, da), "equal_pixels(src, exact copy) is false");
                        VCHECK(gil::equal_pixels(da, sv), "equal_pixels(exact copy, src) is false");
                        // a difference in row padding / unused bytes must not matter
                        if (ia.size > 0)
                        {
                            // flip every byte that the per-pixel writes did not define (we cannot know them exactly for all layouts: use the root pixels outside the view instead)
                        }
                        i64 total = w * h;
                        i64 stride = total <= 64 ? 1 : total / 48;
                        for (i64 i = 0; i < total; i += stride)
                        {
                            i64 x = i % w, y = i / w;
                            int k = static_cast<int>((i + c.get("seed")) % nchan<dst_value_t>());
                            double old = get_ch(da(x, y), k);
                            double nv = old == ch_lo(da(x, y), k) ? ch_hi(da(x, y), k) : ch_lo(da(x, y), k);
                            set_ch(da(x, y), k, nv);
                            VCHECK(!gil::equal_pixels(sv, da), "equal_pixels is true although pixel", x, y, "channel", k, "differs");
                            VCHECK(!gil::equal_pixels(da, sv), "equal_pixels (swapped) is true although pixel", x, y, "channel", k, "differs");
                            set_ch(da(x, y), k, old);
                        }
                        VCHECK(gil::equal_pixels(sv, da), "equal_pixels false after restoring");
                        // pixels of the destination root outside the view must not matter
                        if (root_a.width() * root_a.height() > w * h)
                        {
                            std::vector<unsigned char> save(ia.base, ia.base + ia.size);
                            std::vector<char> in_view(static_cast<std::size_t>(root_a.width() * root_a.height()), 0);
                            Model m;
                            m.w = root_a.width(); m.h = root_a.height();
                            m.apply_all(ds.prog);
                            for (i64 y = 0; y < h; ++y) for (i64 x = 0; x < w; ++x) { i64 rx, ry; m.root(x, y, rx, ry); in_view[static_cast<std::size_t>(ry * root_a.width() + rx)] = 1; }
                            for (i64 y = 0; y < root_a.height(); ++y) for (i64 x = 0; x < root_a.width(); ++x)
                                if (!in_view[static_cast<std::size_t>(y * root_a.width() + x)]) root_a(x, y) = inverted(dst_value_t(root_a(x, y)));
                            VCHECK(gil::equal_pixels(sv, da), "equal_pixels is false after changing only pixels OUTSIDE the compared view");
                            std::memcpy(ia.base, save.data(), ia.size);
                        }
                        break;
                    }
                    case AL_IMAGE_EQ:
                    {
                        // image operator== / != : deep, through the same machinery
                        using simg_t = typename SC::image_t;
                        using dimg_t = typename DC::image_t;
                        if constexpr (std::is_same<simg_t, dimg_t>::value)
                        {
                            static const std::size_t aligns[] = {0, 1, 2, 4, 8, 16, 32, 0};
                            simg_t a(w, h, aligns[c.get("ap_img") & 7]), b(w, h);
                            for (i64 y = 0; y < h; ++y) for (i64 x = 0; x < w; ++x) { gil::view(a)(x, y) = sv(x, y); gil::view(b)(x, y) = sv(x, y); }
                            VCHECK(a == b && !(a != b), "images with equal pixels (different alignment) compare unequal");
                            if (w * h > 0)
                            {
                                i64 i = static_cast<i64>(seed % static_cast<std::uint64_t>(w * h));
                                auto&& p = gil::view(b)(i % w, i / w);
                                set_ch(p, 0, get_ch(p, 0) == ch_lo(p, 0) ? ch_hi(p, 0) : ch_lo(p, 0));
                                VCHECK(!(a == b) && (a != b), "images differing in one pixel compare equal", i % w, i / w);
                            }
                            simg_t d(w + 1, h);
                            VCHECK(!(a == d), "images of different dimensions compare equal");
                        }
                        break;
                    }
                    default: break;
                    }
                }
                if (algo == AL_CONVERT || !Compatible)
                {
                    if constexpr (SC::has_cc)
                    {
                        gil::copy_and_convert_pixels(sv, da);
                        for (i64 y = 0; y < h; ++y) for (i64 x = 0; x < w; ++x)
                        {
                            dst_value_t t;
                            gil::color_convert(sv(x, y), t);
                            db(x, y) = t;
                        }
                        compare_buffers(ia, ib, "copy_and_convert_pixels");
                        // color_converted_view agrees with color_convert pixel-wise
                        auto ccv = gil::color_converted_view<dst_value_t>(sv);
                        for (i64 y = 0; y < h; ++y) for (i64 x = 0; x < w; ++x)
                        {
                            dst_value_t t;
                            gil::color_convert(sv(x, y), t);
                            dst_value_t got = ccv(x, y);
                            VCHECK(got == t, "color_converted_view(v)(x,y) differs from color_convert(v(x,y))", x, y);
                        }
                    }
                }
                (void)sizeof(SV);
                (void)sizeof(DV);
            });
        });
    });
}

// ------------------------------------------------------------------------------------------------ dispatch (pairs are split into groups)
#ifndef C04_GROUP
#define C04_GROUP -1
#endif
#ifndef C04_NGROUPS
#define C04_NGROUPS 8
#endif
static bool pair_in_group(int pi) { return C04_GROUP < 0 || (pi % C04_NGROUPS) == C04_GROUP; }

template <int PI> static void dispatch_pair(Case const& c, Side const& ss, Side const& ds)
{
    if constexpr (C04_GROUP < 0 || (PI % C04_NGROUPS) == C04_GROUP)
    {
        constexpr PairDef pd = PAIRS[PI];
        using SC = mp::mp_at_c<AllConfigs, pd.s>;
        using DC = mp::mp_at_c<AllConfigs, pd.d>;
        run_pair<SC, DC, pd.compatible>(c, ss, ds);
    }
    else throw verif::Fail("pair not compiled into this harness group");
}

static Side side_from(Case const& c, const char* key)
{
    Side s;
    auto const& v = c.list(std::string(key));
    s.rk = static_cast<int>(v.size() > 0 ? v[0] : 0);
    s.rw = v.size() > 1 ? v[1] : 0;
    s.rh = v.size() > 2 ? v[2] : 0;
    s.ap = v.size() > 3 ? v[3] : 0;
    s.prog = prog_from(c.list(std::string(key) + "_prog"));
    return s;
}
static bool side_ok(Side const& s, i64& w, i64& h)
{
    if (s.rk < 0 || s.rk > 2 || s.rw < 0 || s.rh < 0 || s.rw > 80 || s.rh > 80 || s.ap < 0 || s.ap > 32) return false;
    Model m;
    m.w = s.rw; m.h = s.rh;
    if (!m.apply_all(s.prog)) return false;
    w = m.w; h = m.h;
    return true;
}

static void run_case(Case const& c)
{
    int pi = static_cast<int>(c.get("pair"));
    if (pi < 0 || pi >= NPAIRS) return;
    Side ss = side_from(c, "src"), ds = side_from(c, "dst");
    if (ds.rk == 0) ds.rk = 1; // destination always in guard-page memory
    if (ds.ap > 16) ds.ap = 16;
    if (ss.rk != 0 && ss.ap > 16) ss.ap = 16;
    i64 sw, sh, dw, dh;
    if (!side_ok(ss, sw, sh) || !side_ok(ds, dw, dh) || sw != dw || sh != dh) return;
    mp::mp_with_index<NPAIRS>(static_cast<std::size_t>(pi), [&](auto I) { dispatch_pair<static_cast<int>(decltype(I)::value)>(c, ss, ds); });
}

// ------------------------------------------------------------------------------------------------ generator
// builds a root size and a program whose result has dimensions (w,h)
static void gen_side(i64 w, i64 h, bool is_dst, Case& c, const char* key)
{
    Prog tail;
    int tr = verif::weighted({55, 15, 15, 15}); // none, transpose, rot90cw, rot90ccw
    i64 pw = w, ph = h;
    if (tr != 0) std::swap(pw, ph);
    // flips (dimension preserving)
    Prog mid;
    if (verif::coin(30)) mid.push_back(Op{OP_FLIP_UD, 0, 0, 0, 0});
    if (verif::coin(30)) mid.push_back(Op{OP_FLIP_LR, 0, 0, 0, 0});
    if (verif::coin(15)) mid.push_back(Op{OP_ROT180, 0, 0, 0, 0});
    // subsample: before it the size W satisfies ceil(W/s) = pw
    i64 sx = verif::weighted({70, 20, 10}) + 1, sy = verif::weighted({70, 20, 10}) + 1;
    i64 W = pw == 0 ? 0 : (pw - 1) * sx + 1 + verif::pick(0, sx - 1);
    i64 H = ph == 0 ? 0 : (ph - 1) * sy + 1 + verif::pick(0, sy - 1);
    // sub-image margins
    bool sub = verif::coin(is_dst ? 75 : 50);
    i64 ml = sub ? verif::pick(0, 3) : 0, mr = sub ? verif::pick(0, 3) : 0, mt = sub ? verif::pick(0, 2) : 0, mb = sub ? verif::pick(0, 2) : 0;
    Prog p;
    if (sub) p.push_back(Op{OP_SUBIMAGE, ml, mt, W, H});
    if (sx > 1 || sy > 1) p.push_back(Op{OP_SUBSAMPLE, sx, sy, 0, 0});
    for (auto const& o : mid) p.push_back(o);
    if (tr == 1) p.push_back(Op{OP_TRANSPOSE, 0, 0, 0, 0});
    if (tr == 2) p.push_back(Op{OP_ROT90CW, 0, 0, 0, 0});
    if (tr == 3) p.push_back(Op{OP_ROT90CCW, 0, 0, 0, 0});
    int rk = is_dst ? static_cast<int>(verif::weighted({0, 60, 40})) : static_cast<int>(verif::weighted({50, 30, 20}));
    i64 ap = rk == 0 ? verif::one_of<i64>({0, 0, 2, 4, 8, 16}) : verif::one_of<i64>({0, 0, 1, 3, 8});
    c.set(key, {rk, W + ml + mr, H + mt + mb, ap});
    c.set(std::string(key) + "_prog", prog_to(p));
}

static std::vector<int> my_pairs()
{
    std::vector<int> v;
    for (int i = 0; i < NPAIRS; ++i) if (pair_in_group(i)) v.push_back(i);
    return v;
}

static Case gen_case(bool th)
{
    Case c;
    int pi = verif::one_of(my_pairs());
    c.set("pair", pi);
    i64 N = th ? 12 : 8, w, h;
    int shape = verif::weighted({74, 5, 5, 8, 8});
    if (shape == 0) { w = verif::pick(1, N); h = verif::pick(1, N); }
    else if (shape == 1) { w = 0; h = verif::pick(0, N); }
    else if (shape == 2) { h = 0; w = verif::pick(0, N); }
    else if (shape == 3) { w = 1; h = verif::pick(1, N); }
    else { h = 1; w = verif::pick(1, N); }
    c.set("wh", {w, h});
    gen_side(w, h, false, c, "src");
    gen_side(w, h, true, c, "dst");
    c.set("seed", verif::seed64());
    c.set("algo", PAIRS[pi].compatible ? verif::pick(0, AL_COUNT - 1) : AL_CONVERT);
    c.set("ap_img", verif::pick(0, 16));
    return c;
}
static bool nontrivial(Case const& c)
{
    // both views non-empty, destination a proper sub-view / padded / stepped, and the pair or the two view programs heterogeneous
    if (c.get("wh", 0, 0) < 1 || c.get("wh", 0, 1) < 1) return false;
    bool dst_special = !c.list("dst_prog").empty() || c.get("dst", 0, 3) != 0;
    int pi = static_cast<int>(c.get("pair"));
    bool hetero = PAIRS[pi].s != PAIRS[pi].d || c.list("dst_prog") != c.list("src_prog") || c.get("src", 0, 0) != c.get("dst", 0, 0);
    return dst_special && hetero;
}

void verif_replay(Case const& c) { run_case(c); }

void verif_run(verif::Args const& a, verif::Evidence& ev)
{
    bool th = a.thorough();
    ev.rule = "rapidcheck cases = (pair from this group's share of 39 compatible + 18 converting (source,destination) organisation pairs, result shape w,h in 0..8 (12), per side: root kind, margins (sub-view), sub-sampling 1..3, "
              "flips / rot180, transpose / rot90, alignment or row padding; destination always in guard-page memory; algorithm of 12: copy, fill, for_each, generate, transform 1/2, for_each_position, transform_positions 1/2, "
              "equal_pixels (single-channel flip at every position, or 48 sampled for large views; changes outside the view must not matter), copy_and_convert (+color_converted_view), image ==). "
              "oracle: byte identity of the whole destination buffer with the per-pixel-loop model. non-trivial: non-empty, destination is a sub-view / padded / stepped and the two sides differ in type, program or root kind; "
              "distinct = (pair, algorithm, both roots, both programs).";
    int cases = th ? 600000 : 12000;
    verif::rc_search(ev, a, "algo", cases, 60, [&] { return gen_case(th); }, run_case, nontrivial, {"pair", "algo", "wh", "src", "dst", "src_prog", "dst_prog"});
    for (int pi : my_pairs()) ev.classify(std::string("pair:") + cfg_name(PAIRS[pi].s) + "->" + cfg_name(PAIRS[pi].d));
    (void)algo_name;
}

VERIF_MAIN(VERIF_TARGET_NAME)
