// C01 — pixel access through images and views never leaves the image's storage.
// Engine: rapidcheck-generated (configuration, construction history, shape, alignment, view program, channel tail, algorithm) cases
// executed under ASan/UBSan with GIL's assertions on and caller-supplied buffers placed flush against guard pages.
// Oracle: invariant (no sanitizer report, no guard-page fault, no assertion) + every value read equals the identity tag of the
// pixel the coordinate model names + row-start alignment of owned images.
#include "common/rcx.hpp"
#include "common/viewlab.hpp"

using namespace vl;
namespace gil = boost::gil;

enum Hist { H_CTOR = 0, H_CTOR_FILL, H_COPY, H_ASSIGN_OTHER_SIZE, H_RECREATE, H_RECREATE_FILL, H_MOVE_CTOR, H_MOVE_ASSIGN, H_RECREATE_TWICE, H_COUNT };
enum Algo { A_NONE = 0, A_FILL, A_COPY_OUT, A_COPY_IN, A_EQUAL, A_FOR_EACH, A_GENERATE, A_TRANSFORM, A_STD_COPY, A_TRANSFORM2, A_COUNT };

template <class Img> static typename Img::value_type pixel_from_seed(std::uint64_t seed)
{
    typename Img::value_type p;
    for (int k = 0; k < nchan<typename Img::value_type>(); ++k) set_ch(p, k, tag_for(p, seed, 1234, 4321, k));
    return p;
}

template <class Img> static void check_row_alignment(Img const& img, i64 al)
{
    using view_t = typename Img::const_view_t;
    if constexpr (std::is_lvalue_reference<typename view_t::reference>::value)
    {
        if (al > 1)
            for (i64 y = 0; y < img.height(); ++y)
                if (img.width() > 0)
                {
                    auto addr = reinterpret_cast<std::uintptr_t>(&gil::const_view(img)(0, y));
                    VCHECK(addr % static_cast<std::uintptr_t>(al) == 0, "row start not aligned to the requested alignment", y, al);
                }
    }
}

// every read path, compared with the model
template <class V, class RootV> static void read_all_paths(V const& v, Model const& m, RootV const& root, std::uint64_t seed)
{
    VCHECK(v.width() == m.w && v.height() == m.h, "dimensions differ from the model", v.width(), v.height(), m.w, m.h);
    auto expect = [&](auto const& p, i64 x, i64 y, const char* path) {
        i64 rx, ry;
        m.root(x, y, rx, ry);
        auto&& rp = root(rx, ry);
        if (m.chan >= 0) VCHECK(get_ch(p, 0) == tag_for(rp, seed, rx, ry, m.chan), path, "read a wrong pixel at", x, y);
        else
            for (int k = 0; k < nchan<typename RootV::value_type>(); ++k) VCHECK(get_ch(p, k) == tag_for(rp, seed, rx, ry, k), path, "read a wrong pixel at", x, y, "channel", k);
    };
    i64 w = m.w, h = m.h;
    for (i64 y = 0; y < h; ++y)
        for (i64 x = 0; x < w; ++x) expect(v(x, y), x, y, "view(x,y)");
    for (i64 y = 0; y < h; ++y)
    {
        auto it = v.row_begin(y);
        for (i64 x = 0; x < w; ++x) expect(it[x], x, y, "row_begin(y)[x]");
        auto e = v.row_end(y);
        VCHECK(e - it == w, "row_end - row_begin != width");
        if (w > 0) { --e; expect(*e, w - 1, y, "--row_end(y)"); }
    }
    for (i64 x = 0; x < w; ++x)
    {
        auto it = v.col_begin(x);
        for (i64 y = 0; y < h; ++y) expect(it[y], x, y, "col_begin(x)[y]");
        auto e = v.col_end(x);
        VCHECK(e - it == h, "col_end - col_begin != height");
    }
    {
        auto b = v.begin();
        auto e = v.end();
        VCHECK(e - b == w * h, "end - begin != w*h");
        i64 i = 0;
        for (auto it = b; it != e; ++it, ++i) expect(*it, i % (w ? w : 1), i / (w ? w : 1), "++iterator");
        for (i64 j = 0; j < w * h; ++j) { expect(b[j], j % w, j / w, "begin()[i]"); expect(*v.at(j), j % w, j / w, "at(i)"); }
        i = w * h;
        for (auto it = v.rbegin(); it != v.rend(); ++it) { --i; expect(*it, i % w, i / w, "reverse iterator"); }
        // backward random-access jumps from the end and from the middle (every target, so also column 0 of earlier rows)
        for (i64 k = 1; k <= w * h; ++k) { i64 j = w * h - k; expect(e[-k], j % w, j / w, "end()[-k]"); expect(*(e - k), j % w, j / w, "*(end() - k)"); }
        if (w * h > 2)
        {
            auto mid = b + (w * h) / 2;
            for (i64 j = 0; j < w * h; ++j) expect(mid[j - (w * h) / 2], j % w, j / w, "(begin()+n/2)[j-n/2]");
        }
    }
    if (w > 0 && h > 0)
    {
        auto loc = v.xy_at(0, 0);
        for (i64 y = 0; y < h; ++y)
        {
            for (i64 x = 0; x < w; ++x)
            {
                expect(*loc, x, y, "locator walk");
                expect(loc(0, 0), x, y, "locator(0,0)");
                if (x + 1 < w) ++loc.x();
            }
            loc.x() -= (w - 1);
            if (y + 1 < h) ++loc.y();
        }
        auto cl = v.xy_at(w / 2, h / 2);
        auto last = cl.cache_location(w - 1 - w / 2, h - 1 - h / 2);
        expect(cl[last], w - 1, h - 1, "cached location (last pixel)");
        auto first = cl.cache_location(-(w / 2), -(h / 2));
        expect(cl[first], 0, 0, "cached location (first pixel)");
        expect(v.xy_at(w - 1, h - 1)(-(w - 1), -(h - 1)), 0, 0, "locator(dx,dy) from the last pixel");
    }
}

struct Counter
{
    i64* n;
    template <class P> void operator()(P const&) const { ++*n; }
};

template <class V, class RootV> static void run_algo(V const& v, Model const& m, RootV const& root, std::uint64_t seed, int algo)
{
    using value_t = typename V::value_type;
    using tmp_image_t = gil::image<value_t, false>;
    i64 w = m.w, h = m.h;
    value_t val;
    for (int k = 0; k < nchan<value_t>(); ++k) set_ch(val, k, tag_in_range(tag_hash(seed, 77, 88, k), ch_lo(val, k), ch_hi(val, k), ch_is_float(val, k)));
    switch (algo)
    {
    case A_NONE: return;
    case A_FILL:
    {
        gil::fill_pixels(v, val);
        for (i64 y = 0; y < h; ++y) for (i64 x = 0; x < w; ++x) for (int k = 0; k < nchan<value_t>(); ++k) VCHECK(get_ch(v(x, y), k) == get_ch(val, k), "fill_pixels: pixel not filled", x, y, k);
        // nothing outside the view changed: every root pixel is either its tag or (if it is in the image of the model) the fill value
        std::vector<char> hit(static_cast<std::size_t>(root.width() * root.height() + 1), 0);
        for (i64 y = 0; y < h; ++y) for (i64 x = 0; x < w; ++x) { i64 rx, ry; m.root(x, y, rx, ry); hit[static_cast<std::size_t>(ry * root.width() + rx)] = 1; }
        for (i64 y = 0; y < root.height(); ++y)
            for (i64 x = 0; x < root.width(); ++x)
            {
                auto&& rp = root(x, y);
                for (int k = 0; k < nchan<typename RootV::value_type>(); ++k)
                {
                    bool target = hit[static_cast<std::size_t>(y * root.width() + x)] && (m.chan < 0 || m.chan == k);
                    double want = target ? get_ch(val, m.chan < 0 ? k : 0) : tag_for(rp, seed, x, y, k);
                    VCHECK(get_ch(rp, k) == want, "fill_pixels through a derived view changed a pixel outside it (or missed one): root", x, y, k);
                }
            }
        return;
    }
    case A_COPY_OUT:
    {
        tmp_image_t tmp(w, h);
        gil::copy_pixels(v, gil::view(tmp));
        VCHECK(gil::equal_pixels(v, gil::const_view(tmp)), "copy_pixels out of the view then equal_pixels is false");
        for (i64 y = 0; y < h; ++y) for (i64 x = 0; x < w; ++x) for (int k = 0; k < nchan<value_t>(); ++k) VCHECK(get_ch(gil::view(tmp)(x, y), k) == get_ch(v(x, y), k), "copy_pixels out: pixel differs", x, y, k);
        return;
    }
    case A_COPY_IN:
    {
        tmp_image_t tmp(w, h, val);
        gil::copy_pixels(gil::const_view(tmp), v);
        for (i64 y = 0; y < h; ++y) for (i64 x = 0; x < w; ++x) for (int k = 0; k < nchan<value_t>(); ++k) VCHECK(get_ch(v(x, y), k) == get_ch(val, k), "copy_pixels into the view: pixel differs", x, y, k);
        return;
    }
    case A_EQUAL:
    {
        tmp_image_t tmp(w, h);
        for (i64 y = 0; y < h; ++y) for (i64 x = 0; x < w; ++x) gil::view(tmp)(x, y) = v(x, y);
        VCHECK(gil::equal_pixels(v, gil::const_view(tmp)), "equal_pixels(view, exact copy) is false");
        VCHECK(gil::equal_pixels(gil::const_view(tmp), v), "equal_pixels(exact copy, view) is false");
        return;
    }
    case A_FOR_EACH:
    {
        i64 n = 0;
        gil::for_each_pixel(v, Counter{&n});
        VCHECK(n == w * h, "for_each_pixel visited", n, "pixels instead of", w * h);
        return;
    }
    case A_GENERATE:
    {
        gil::generate_pixels(v, [&] { return val; });
        for (i64 y = 0; y < h; ++y) for (i64 x = 0; x < w; ++x) for (int k = 0; k < nchan<value_t>(); ++k) VCHECK(get_ch(v(x, y), k) == get_ch(val, k), "generate_pixels: pixel not generated", x, y, k);
        return;
    }
    case A_TRANSFORM:
    {
        tmp_image_t tmp(w, h);
        gil::transform_pixels(v, gil::view(tmp), [](auto const& p) { return value_t(p); });
        for (i64 y = 0; y < h; ++y) for (i64 x = 0; x < w; ++x) for (int k = 0; k < nchan<value_t>(); ++k) VCHECK(get_ch(gil::view(tmp)(x, y), k) == get_ch(v(x, y), k), "transform_pixels: pixel differs", x, y, k);
        return;
    }
    case A_TRANSFORM2:
    {
        tmp_image_t tmp(w, h, val), out(w, h);
        gil::transform_pixels(v, gil::const_view(tmp), gil::view(out), [](auto const& p, auto const&) { return value_t(p); });
        for (i64 y = 0; y < h; ++y) for (i64 x = 0; x < w; ++x) for (int k = 0; k < nchan<value_t>(); ++k) VCHECK(get_ch(gil::view(out)(x, y), k) == get_ch(v(x, y), k), "transform_pixels(2 sources): pixel differs", x, y, k);
        return;
    }
    case A_STD_COPY:
    {
        tmp_image_t tmp(w, h);
        std::copy(v.begin(), v.end(), gil::view(tmp).begin());
        for (i64 y = 0; y < h; ++y) for (i64 x = 0; x < w; ++x) for (int k = 0; k < nchan<value_t>(); ++k) VCHECK(get_ch(gil::view(tmp)(x, y), k) == get_ch(v(x, y), k), "std::copy over 1-D iterators: pixel differs", x, y, k);
        return;
    }
    default: return;
    }
}

template <class Cfg, class RootV> static void after_root(Case const& c, RootV const& root, std::uint64_t seed)
{
    Model m;
    m.w = root.width();
    m.h = root.height();
    Prog prog = prog_from(c.list("prog")), post = prog_from(c.list("post"));
    if (!m.apply_all(prog)) return;
    { Model t = m; if (!t.apply_all(post)) return; }
    int tail = static_cast<int>(c.get("tail", 0, 0)), tparam = static_cast<int>(c.get("tail", 0, 1));
    int algo = static_cast<int>(c.get("algo"));
    run_ops(root, prog, 0, [&](auto const& v) {
        using V = std::decay_t<decltype(v)>;
        if (tail == 1)
        {
            if constexpr (Cfg::homogeneous)
            {
                int n = tparam % nchan<typename V::value_type>();
                auto nv = gil::nth_channel_view(v, n);
                Model m2 = m;
                m2.chan = n;
                run_ops(nv, post, 0, [&](auto const& pv) {
                    VCHECK(m2.apply_all(post), "model rejected post ops");
                    read_all_paths(pv, m2, root, seed);
                    run_algo(pv, m2, root, seed, algo);
                });
                return;
            }
        }
        read_all_paths(v, m, root, seed);
        run_algo(v, m, root, seed, algo);
    });
}

static void run_case(Case const& c)
{
    int cfg = static_cast<int>(c.get("cfg"));
    i64 w = c.get("w"), h = c.get("h"), al = c.get("ap");
    i64 w2 = c.get("w2"), h2 = c.get("h2"), al2 = c.get("ap2"), w3 = c.get("w3"), h3 = c.get("h3"), al3 = c.get("ap3");
    int rk = static_cast<int>(c.get("rk")), hist = static_cast<int>(c.get("hist"));
    for (i64 d : {w, h, w2, h2, w3, h3}) if (d < 0 || d > 80) return;
    for (i64 a : {al, al2, al3}) if (a < 0 || a > 64) return;
    if (rk < 0 || rk > 2 || hist < 0 || hist >= H_COUNT) return;
    std::uint64_t seed = static_cast<std::uint64_t>(c.get("seed"));
    with_config_in_group(cfg, [&](auto C) {
        using Cfg = decltype(C);
        using image_t = typename Cfg::image_t;
        if (rk != ROOT_IMAGE)
        {
            with_root<Cfg>(rk, w, h, al > 16 ? 16 : al, seed, [&](auto const& root, RootInfo const&) { after_root<Cfg>(c, root, seed); });
            return;
        }
        auto fillv = pixel_from_seed<image_t>(seed ^ 0x55);
        auto finish = [&](image_t& img, i64 want_al) {
            if (w > 0 && h > 0) VCHECK(img.width() == w && img.height() == h, "image does not have the requested dimensions", img.width(), img.height(), w, h);
            check_row_alignment(img, want_al);
            fill_tags(gil::view(img), seed);
            after_root<Cfg>(c, gil::view(img), seed);
        };
        switch (hist)
        {
        case H_CTOR: { image_t img(w, h, static_cast<std::size_t>(al)); finish(img, al); break; }
        case H_CTOR_FILL:
        {
            image_t img(w, h, fillv, static_cast<std::size_t>(al));
            for (i64 y = 0; y < img.height(); ++y) for (i64 x = 0; x < img.width(); ++x) for (int k = 0; k < nchan<typename image_t::value_type>(); ++k)
                VCHECK(get_ch(gil::view(img)(x, y), k) == get_ch(fillv, k), "constructor fill value not stored", x, y, k);
            finish(img, al);
            break;
        }
        case H_COPY:
        {
            image_t src(w, h, static_cast<std::size_t>(al));
            fill_tags(gil::view(src), seed ^ 9);
            image_t img(src);
            VCHECK(img == src, "copy is not equal to its source");
            finish(img, al);
            break;
        }
        case H_ASSIGN_OTHER_SIZE:
        {
            image_t img(w2, h2, static_cast<std::size_t>(al2));
            image_t src(w, h, static_cast<std::size_t>(al));
            fill_tags(gil::view(src), seed ^ 9);
            img = src;
            VCHECK(img == src, "assigned image is not equal to its source");
            finish(img, 0);
            break;
        }
        case H_RECREATE: { image_t img(w2, h2, static_cast<std::size_t>(al2)); img.recreate(w, h, static_cast<std::size_t>(al)); finish(img, al); break; }
        case H_RECREATE_FILL:
        {
            image_t img(w2, h2, static_cast<std::size_t>(al2));
            img.recreate(w, h, fillv, static_cast<std::size_t>(al));
            bool same = (w == w2 && h == h2 && al == al2) || w == 0 || h == 0 || (w2 > 0 && h2 > 0 ? false : false);
            if (!(w == img.width() && h == img.height() && w2 == w && h2 == h && al == al2)) // recreate to identical parameters is a documented no-op
                for (i64 y = 0; y < img.height(); ++y) for (i64 x = 0; x < img.width(); ++x) for (int k = 0; k < nchan<typename image_t::value_type>(); ++k)
                    VCHECK(get_ch(gil::view(img)(x, y), k) == get_ch(fillv, k), "recreate fill value not stored", x, y, k);
            (void)same;
            finish(img, al);
            break;
        }
        case H_MOVE_CTOR: { image_t tmp(w, h, static_cast<std::size_t>(al)); image_t img(std::move(tmp)); VCHECK(tmp.width() == 0 && tmp.height() == 0, "moved-from image not empty"); finish(img, al); break; }
        case H_MOVE_ASSIGN: { image_t tmp(w, h, static_cast<std::size_t>(al)); image_t img(w2, h2, static_cast<std::size_t>(al2)); img = std::move(tmp); finish(img, al); break; }
        case H_RECREATE_TWICE:
        {
            image_t img(w2, h2, static_cast<std::size_t>(al2));
            img.recreate(w3, h3, static_cast<std::size_t>(al3));
            if (w3 > 0 && h3 > 0) { VCHECK(img.width() == w3 && img.height() == h3, "first recreate: wrong dimensions"); check_row_alignment(img, al3); fill_tags(gil::view(img), seed ^ 3); }
            img.recreate(w, h, static_cast<std::size_t>(al));
            finish(img, al);
            break;
        }
        default: break;
        }
    });
}

// ------------------------------------------------------------------------------------------------ generator
static Prog gen_prog(Model& m, int maxdepth)
{
    Prog p;
    int n = static_cast<int>(verif::pick(0, maxdepth));
    for (int i = 0; i < n; ++i)
    {
        int kind = verif::weighted({10, 10, 12, 12, 12, 8, 18, 14});
        Op o{kind, 0, 0, 0, 0};
        if (kind == OP_SUBIMAGE)
        {
            if (m.w == 0 || m.h == 0) { o.c = 0; o.d = 0; }
            else
            {
                // biased to the far corner: the last pixels of the last row are where over-reads show
                o.a = verif::coin(50) ? verif::pick(0, m.w - 1) : m.w - 1 - verif::pick(0, std::min<i64>(2, m.w - 1));
                o.b = verif::coin(50) ? verif::pick(0, m.h - 1) : m.h - 1 - verif::pick(0, std::min<i64>(1, m.h - 1));
                o.c = verif::coin(70) ? m.w - o.a : verif::pick(1, m.w - o.a);
                o.d = verif::coin(70) ? m.h - o.b : verif::pick(1, m.h - o.b);
            }
        }
        else if (kind == OP_SUBSAMPLE) { o.a = verif::pick(1, 3); o.b = verif::pick(1, 3); }
        if (!m.apply(o)) break;
        p.push_back(o);
    }
    return p;
}
static void gen_shape(bool th, i64& w, i64& h)
{
    i64 N = th ? 17 : 9;
    int shape = verif::weighted({66, 6, 6, 11, 11});
    if (shape == 0) { w = verif::pick(1, N); h = verif::pick(1, N); }
    else if (shape == 1) { w = 0; h = verif::pick(0, N); }
    else if (shape == 2) { h = 0; w = verif::pick(0, N); }
    else if (shape == 3) { w = 1; h = verif::pick(1, N); }
    else { h = 1; w = verif::pick(1, N); }
    if (th && verif::coin(6)) w = verif::one_of<i64>({33, 64, 65});
}
static i64 gen_align() { return verif::one_of<i64>({0, 0, 1, 2, 4, 8, 16, 32}); }

static Case gen_case(bool th)
{
    Case c;
    c.set("cfg", verif::one_of(group_configs()));
    i64 w, h, w2, h2, w3, h3;
    gen_shape(th, w, h);
    gen_shape(th, w2, h2);
    gen_shape(th, w3, h3);
    // histories that re-use storage are interesting when the earlier shape is the same or almost the same as the final one
    // (the capacity test and the alignment of the rows then decide whether the old buffer is kept)
    int near = verif::weighted({55, 15, 10, 10, 10});
    if (near == 1) { w2 = w; h2 = h; } else if (near == 2) { w2 = h; h2 = w; } else if (near == 3) { w2 = w + 1; h2 = h; } else if (near == 4) { w2 = w; h2 = h + 1; }
    int near3 = verif::weighted({70, 15, 15});
    if (near3 == 1) { w3 = w; h3 = h; } else if (near3 == 2) { w3 = w2; h3 = h2; }
    c.set("w", w); c.set("h", h); c.set("w2", w2); c.set("h2", h2); c.set("w3", w3); c.set("h3", h3);
    int rk = verif::weighted({60, 25, 15});
    c.set("rk", rk);
    c.set("ap", rk == ROOT_IMAGE ? gen_align() : verif::one_of<i64>({0, 0, 0, 1, 3, 8}));
    c.set("ap2", gen_align());
    c.set("ap3", gen_align());
    c.set("hist", rk == ROOT_IMAGE ? verif::pick(0, H_COUNT - 1) : 0);
    c.set("seed", verif::seed64());
    Model m;
    m.w = w; m.h = h;
    c.set("prog", prog_to(gen_prog(m, th ? 4 : 3)));
    int tail = verif::weighted({75, 25});
    c.set("tail", {tail, verif::pick(0, 4)});
    c.set("post", prog_to(tail ? gen_prog(m, 2) : Prog{}));
    c.set("algo", verif::pick(0, A_COUNT - 1));
    return c;
}
static bool nontrivial(Case const& c)
{
    // an access script that reaches the last pixel of a non-empty buffer with at least one transformation or a non-trivial history
    if (c.get("w") < 1 || c.get("h") < 1) return false;
    return !c.list("prog").empty() || c.get("hist") >= H_COPY || c.get("rk") != 0;
}

void verif_replay(Case const& c) { run_case(c); }

void verif_run(verif::Args const& a, verif::Evidence& ev)
{
    bool th = a.thorough();
    ev.rule = "rapidcheck cases = (configuration from the group's share of 28 image organisations; root = image built by one of 9 histories {ctor, ctor+fill, copy, assign from other size, recreate, recreate+fill, move ctor, "
              "move assign, recreate twice} with alignments in {0,1,2,4,8,16,32}, or a caller buffer of exactly height x row-bytes flush against the trailing / leading guard page; w,h in 0..9 (17, and 33/64/65 thorough), "
              "degenerate shapes weighted; program of <= 3 (4) view ops with sub-images biased to the far corner; optional nth_channel + 2 ops; all read paths: view(x,y), row/col iterators, 1-D iterator ++/[]/at, reverse, "
              "locator walk, cached locations; one algorithm of fill/copy out/copy in/equal/for_each/generate/transform(1,2)/std::copy). oracle: no ASan/UBSan/guard/assert event, values = identity tags via the model, row alignment. "
              "non-trivial: non-empty image reached through a transformation, a non-trivial history or a guard buffer; distinct = (cfg, history, shapes, alignments, program, tail, algorithm).";
    int cases = th ? 1000000 : 20000;
    verif::rc_search(ev, a, "access", cases, 60, [&] { return gen_case(th); }, run_case, nontrivial,
                     {"cfg", "rk", "hist", "w", "h", "w2", "h2", "ap", "ap2", "prog", "tail", "post", "algo"});
}

VERIF_MAIN(VERIF_TARGET_NAME)
