// Hand serialisers for file variants GIL's writers cannot produce (shared by the C11 and C13 harnesses).
#ifndef VERIF_IOFILES_HPP
#define VERIF_IOFILES_HPP

#include "verif.hpp"

#include <sstream>
#include <string>
#include <vector>

namespace iofiles {

// ------------------------------------------------------------------------------------------------ byte helpers and hand serialisers
inline void put16(std::string& s, unsigned v) { s += char(v & 255); s += char((v >> 8) & 255); }
inline void put32(std::string& s, unsigned long v) { put16(s, v & 0xffff); put16(s, (v >> 16) & 0xffff); }
struct Rnd { verif::SplitMix r; explicit Rnd(std::uint64_t s) : r(s) {} unsigned byte() { return unsigned(r.next() & 255); } unsigned below(unsigned n) { return unsigned(r.below(n)); } };

// BMP: bpp in {1,4,8,24,32}, top_down flag, rle (bpp 4/8 only)
inline std::string make_bmp(int w, int h, int bpp, bool top_down, bool rle, std::uint64_t seed)
{
    Rnd r(seed);
    int ncol = bpp <= 8 ? (1 << bpp) : 0;
    std::string pal;
    for (int i = 0; i < ncol; ++i) { pal += char(r.byte()); pal += char(r.byte()); pal += char(r.byte()); pal += char(0); }
    // pixel indices / colours, in top-down image order
    std::vector<std::vector<unsigned>> px(static_cast<std::size_t>(h), std::vector<unsigned>(static_cast<std::size_t>(w)));
    for (auto& row : px) for (auto& v : row) v = bpp <= 8 ? r.below(static_cast<unsigned>(ncol)) : unsigned(r.r.next() & 0xffffffffu);
    std::string data;
    auto file_rows = [&](int k) { return top_down ? k : h - 1 - k; }; // k-th stored row = image row
    if (!rle)
    {
        int row_bytes = ((w * bpp + 31) / 32) * 4;
        for (int k = 0; k < h; ++k)
        {
            auto const& row = px[static_cast<std::size_t>(file_rows(k))];
            std::string line(static_cast<std::size_t>(row_bytes), char(0));
            for (int x = 0; x < w; ++x)
            {
                unsigned v = row[static_cast<std::size_t>(x)];
                if (bpp == 1) { if (v) line[static_cast<std::size_t>(x / 8)] = char(line[static_cast<std::size_t>(x / 8)] | (0x80 >> (x % 8))); }
                else if (bpp == 4) { line[static_cast<std::size_t>(x / 2)] = char(line[static_cast<std::size_t>(x / 2)] | ((x & 1) ? (v & 15) : ((v & 15) << 4))); }
                else if (bpp == 8) line[static_cast<std::size_t>(x)] = char(v);
                else if (bpp == 24) { line[static_cast<std::size_t>(3 * x)] = char(v); line[static_cast<std::size_t>(3 * x + 1)] = char(v >> 8); line[static_cast<std::size_t>(3 * x + 2)] = char(v >> 16); }
                else { line[static_cast<std::size_t>(4 * x)] = char(v); line[static_cast<std::size_t>(4 * x + 1)] = char(v >> 8); line[static_cast<std::size_t>(4 * x + 2)] = char(v >> 16); line[static_cast<std::size_t>(4 * x + 3)] = char(v >> 24); }
            }
            data += line;
        }
    }
    else
    {
        // RLE8 / RLE4: mix of encoded runs and absolute runs, end-of-line after each row, end-of-bitmap at the end (always bottom-up)
        for (int k = 0; k < h; ++k)
        {
            auto const& row = px[static_cast<std::size_t>(h - 1 - k)];
            int x = 0;
            while (x < w)
            {
                int left = w - x;
                bool absolute = left >= 3 && r.below(3) == 0;
                if (absolute)
                {
                    int n = 3 + static_cast<int>(r.below(static_cast<unsigned>(std::min(left - 2, 6))));
                    data += char(0); data += char(n);
                    if (bpp == 8) { for (int i = 0; i < n; ++i) data += char(row[static_cast<std::size_t>(x + i)]); if (n & 1) data += char(0); }
                    else
                    {
                        int bytes = (n + 1) / 2;
                        for (int i = 0; i < bytes; ++i) { unsigned a = row[static_cast<std::size_t>(x + 2 * i)], b = (2 * i + 1 < n) ? row[static_cast<std::size_t>(x + 2 * i + 1)] : 0; data += char((a << 4) | b); }
                        if (bytes & 1) data += char(0);
                    }
                    x += n;
                }
                else
                {
                    int n = 1 + static_cast<int>(r.below(static_cast<unsigned>(std::min(left, 5))));
                    if (bpp == 8)
                    {
                        unsigned v = row[static_cast<std::size_t>(x)];
                        int run = 1;
                        while (run < n && row[static_cast<std::size_t>(x + run)] == v) ++run;
                        data += char(run); data += char(v);
                        x += run;
                    }
                    else
                    {
                        // RLE4 run alternates two colours
                        unsigned a = row[static_cast<std::size_t>(x)], b = (x + 1 < w) ? row[static_cast<std::size_t>(x + 1)] : 0;
                        int run = 1;
                        while (run < n && row[static_cast<std::size_t>(x + run)] == ((run & 1) ? b : a)) ++run;
                        data += char(run); data += char((a << 4) | b);
                        x += run;
                    }
                }
            }
            data += char(0); data += char(k + 1 == h ? 1 : 0);
        }
    }
    std::string f = "BM";
    unsigned long offset = 14 + 40 + pal.size();
    put32(f, offset + data.size()); put32(f, 0); put32(f, offset);
    put32(f, 40); put32(f, static_cast<unsigned long>(w)); put32(f, static_cast<unsigned long>(top_down ? static_cast<unsigned long>(-static_cast<long>(h)) & 0xffffffffUL : static_cast<unsigned long>(h)));
    put16(f, 1); put16(f, static_cast<unsigned>(bpp)); put32(f, rle ? (bpp == 8 ? 1 : 2) : 0); put32(f, data.size()); put32(f, 2835); put32(f, 2835);
    put32(f, static_cast<unsigned long>(ncol)); put32(f, 0);
    return f + pal + data;
}
// TARGA: bpp 24/32, rle, top origin
inline std::string make_tga(int w, int h, int bpp, bool rle, bool top_origin, std::uint64_t seed)
{
    Rnd r(seed);
    int bytes = bpp / 8;
    std::vector<std::string> px;
    for (int i = 0; i < w * h; ++i) { std::string p; for (int b = 0; b < bytes; ++b) p += char((r.below(4) == 0 && i > 0) ? px.back()[static_cast<std::size_t>(b)] : char(r.byte())); px.push_back(p); }
    std::string f;
    f += char(0); f += char(0); f += char(rle ? 10 : 2);
    put16(f, 0); put16(f, 0); f += char(0); put16(f, 0); put16(f, 0); put16(f, static_cast<unsigned>(w)); put16(f, static_cast<unsigned>(h));
    f += char(bpp); f += char((bpp == 32 ? 8 : 0) | (top_origin ? 32 : 0));
    if (!rle) { for (auto& p : px) f += p; return f; }
    std::size_t i = 0, n = px.size();
    while (i < n)
    {
        std::size_t run = 1;
        while (i + run < n && run < 128 && px[i + run] == px[i]) ++run;
        if (run >= 2 || r.below(4) == 0) { f += char(0x80 | (run - 1)); f += px[i]; i += run; }
        else
        {
            std::size_t raw = 1;
            while (i + raw < n && raw < 128 && raw < 1 + r.below(6) && px[i + raw] != px[i + raw - 1]) ++raw;
            f += char(raw - 1);
            for (std::size_t k = 0; k < raw; ++k) f += px[i + k];
            i += raw;
        }
    }
    return f;
}
// PNM ASCII: type 1 (bitmap), 2 (gray), 3 (rgb)
inline std::string make_pnm_ascii(int w, int h, int type, std::uint64_t seed)
{
    Rnd r(seed);
    std::ostringstream os;
    os << "P" << type << "\n# generated\n" << w << " " << h << "\n";
    if (type != 1) os << "255\n";
    int n = w * h * (type == 3 ? 3 : 1);
    for (int i = 0; i < n; ++i) { os << (type == 1 ? r.below(2) : r.byte()); os << ((i % 7 == 6) ? "\n" : (r.below(5) == 0 ? "  " : " ")); }
    os << "\n";
    return os.str();
}


} // namespace iofiles

#endif
