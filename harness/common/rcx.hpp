// rapidcheck glue: generator helpers that do not collapse at small sizes, and a search loop that
// records the shrunk failing case as a verif::Case.
#ifndef VERIF_RCX_HPP
#define VERIF_RCX_HPP

#include "verif.hpp"

#include <rapidcheck.h>

namespace verif {

// uniform in [lo, hi] whatever the current rapidcheck size (shrinks towards lo)
inline i64 pick(i64 lo, i64 hi)
{
    if (hi <= lo) return lo;
    return *rc::gen::resize(rc::kNominalSize, rc::gen::inRange<i64>(lo, hi + 1));
}
// in [lo, hi], scaled by the current size: small cases first (shrinks towards lo)
inline i64 grow(i64 lo, i64 hi)
{
    if (hi <= lo) return lo;
    return *rc::gen::inRange<i64>(lo, hi + 1);
}
inline bool coin(int percent_true = 50) { return pick(0, 99) < percent_true; }
template <class T>
T one_of(std::initializer_list<T> xs)
{
    std::vector<T> v(xs);
    return v[static_cast<std::size_t>(pick(0, static_cast<i64>(v.size()) - 1))];
}
template <class T>
T one_of(std::vector<T> const& v)
{
    return v[static_cast<std::size_t>(pick(0, static_cast<i64>(v.size()) - 1))];
}
// index drawn by weight (weights need not be normalised); shrinks towards index 0
inline int weighted(std::initializer_list<int> ws)
{
    std::vector<int> w(ws);
    i64 total = 0;
    for (int x : w) total += x;
    i64 r = pick(0, total - 1);
    for (std::size_t i = 0; i < w.size(); ++i)
    {
        if (r < w[i]) return static_cast<int>(i);
        r -= w[i];
    }
    return static_cast<int>(w.size()) - 1;
}
inline i64 seed64() { return pick(0, (1LL << 40)); }

inline std::string target_key(std::string const& name) { return "@" + name; }
inline std::string case_target(Case const& c)
{
    for (auto& kv : c.f) if (!kv.first.empty() && kv.first[0] == '@') return kv.first.substr(1);
    return "";
}

// Runs `cases` generated cases of one sub-target. gen() builds a Case from rapidcheck generators,
// run(c) throws verif::Fail (or any std::exception) on violation, nontrivial(c) is the property's rule,
// fpkeys selects the Case fields that make two non-trivial cases "distinct".
template <class GenFn, class RunFn, class NtFn>
bool rc_search(Evidence& ev, Args const& a, std::string const& name, int cases, int max_size,
               GenFn gen, RunFn run, NtFn nontrivial, std::vector<std::string> fpkeys = {})
{
    rc::detail::TestParams p;
    p.seed = mix64(mix64(a.seed, hash_str(name)), hash_str(a.target));
    p.maxSuccess = cases;
    p.maxSize = max_size;
    p.maxDiscardRatio = 10;
    rc::detail::TestMetadata md;
    md.id = name;
    md.description = name;

    Case last_fail;
    std::string last_msg;
    bool have = false;
    std::uint64_t evals_here = 0;

    auto prop = [&]() {
        Case c = gen();
        c[target_key(name)]; // marks which sub-target the case belongs to (for replay dispatch)
        set_current_case(c);
        ev.eval();
        ++evals_here;
        bool nt = nontrivial(c);
        try
        {
            run(c);
        }
        catch (Fail const& f)
        {
            last_fail = c;
            last_msg = f.what();
            have = true;
            RC_FAIL(std::string(f.what()));
        }
        catch (std::exception const& e)
        {
            last_fail = c;
            last_msg = std::string("unexpected exception: ") + e.what();
            have = true;
            RC_FAIL(last_msg);
        }
        if (nt)
        {
            ev.nontrivial(fingerprint(c, fpkeys));
            ev.sample(c);
        }
    };
    auto result = rc::detail::checkTestable(prop, md, p);
    case_finished();
    bool ok = result.template is<rc::detail::SuccessResult>();
    if (!ok)
    {
        std::ostringstream os;
        rc::detail::printResultMessage(result, os);
        std::fprintf(stderr, "[%s] %s\n", name.c_str(), os.str().c_str());
        if (have) ev.fail(last_fail, "[" + name + "] " + last_msg);
        else if (result.template is<rc::detail::GaveUpResult>())
            ev.note("[" + name + "] generator gave up (too many discards) — treated as inconclusive, fix the generator");
        else ev.fail("{}", "[" + name + "] rapidcheck error: " + os.str());
    }
    ev.classify("cases:" + name, evals_here);
    return ok;
}

} // namespace verif

#endif
