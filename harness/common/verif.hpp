// Common machinery for all /verif harnesses: structured cases, failure type, BOOST_ASSERT capture,
// evidence counters, crash-time dump of the current case, guard-page buffers, CLI entry.
//
// Every harness translation unit does
//     #include "common/verif.hpp"      (before any GIL header: it installs the assert handler)
// and defines      void verif_run(const verif::Args&, verif::Evidence&);   (search)
//                  void verif_replay(const verif::Case&);                  (throws verif::Fail)
// then uses VERIF_MAIN().
#ifndef VERIF_COMMON_HPP
#define VERIF_COMMON_HPP

#ifndef BOOST_ENABLE_ASSERT_HANDLER
#define BOOST_ENABLE_ASSERT_HANDLER
#endif

#include <algorithm>
#include <atomic>
#include <chrono>
#include <ctime>
#include <csignal>
#include <cstdint>
#include <cstdio>
#include <cstdlib>
#include <cstring>
#include <functional>
#include <map>
#include <mutex>
#include <set>
#include <sstream>
#include <stdexcept>
#include <string>
#include <thread>
#include <unordered_set>
#include <utility>
#include <vector>

#include <fcntl.h>
#include <sys/mman.h>
#include <unistd.h>

namespace verif {

using i64 = long long;

// ---------------------------------------------------------------------------------------------
// Failure of a property on a case (also what a captured BOOST_ASSERT turns into)
struct Fail : std::runtime_error
{
    explicit Fail(std::string const& m) : std::runtime_error(m) {}
};
struct AssertFail : Fail
{
    explicit AssertFail(std::string const& m) : Fail(m) {}
};

#define VCHECK(cond, ...)                                                                         \
    do {                                                                                          \
        if (!(cond)) {                                                                            \
            std::ostringstream verif_os_; verif_os_.precision(17);                                \
            verif_os_ << "check failed: " #cond " @" << __FILE__ << ":" << __LINE__ << " ";       \
            ::verif::detail::stream_all(verif_os_, ##__VA_ARGS__);                                \
            throw ::verif::Fail(verif_os_.str());                                                 \
        }                                                                                         \
    } while (0)

namespace detail {
inline void stream_all(std::ostream&) {}
template <class T, class... R>
void stream_all(std::ostream& os, T const& t, R const&... r)
{
    os << t << ' ';
    stream_all(os, r...);
}
} // namespace detail

// ---------------------------------------------------------------------------------------------
// A case is a record of named integer lists. Everything a harness needs to re-run one generated
// input exactly (configuration index, shape, op program, content seed, coordinates...) goes in here,
// so that serialisation, fingerprinting, shrinking (by the driver) and replay are uniform.
struct Case
{
    std::vector<std::pair<std::string, std::vector<i64>>> f;

    std::vector<i64>& operator[](std::string const& k)
    {
        for (auto& kv : f) if (kv.first == k) return kv.second;
        f.emplace_back(k, std::vector<i64>{});
        return f.back().second;
    }
    std::vector<i64> const* find(std::string const& k) const
    {
        for (auto& kv : f) if (kv.first == k) return &kv.second;
        return nullptr;
    }
    bool has(std::string const& k) const { return find(k) != nullptr; }
    std::vector<i64> const& list(std::string const& k) const
    {
        static const std::vector<i64> empty;
        auto p = find(k);
        return p ? *p : empty;
    }
    i64 get(std::string const& k, i64 dflt = 0, std::size_t idx = 0) const
    {
        auto p = find(k);
        return (p && idx < p->size()) ? (*p)[idx] : dflt;
    }
    void set(std::string const& k, i64 v) { (*this)[k] = std::vector<i64>{v}; }
    void set(std::string const& k, std::vector<i64> v) { (*this)[k] = std::move(v); }

    std::string json() const
    {
        std::string s = "{";
        bool first = true;
        for (auto& kv : f)
        {
            if (!first) s += ",";
            first = false;
            s += "\"" + kv.first + "\":[";
            for (std::size_t i = 0; i < kv.second.size(); ++i)
            {
                if (i) s += ",";
                s += std::to_string(kv.second[i]);
            }
            s += "]";
        }
        return s + "}";
    }

    // parses exactly what json() writes (plus whitespace)
    static Case parse(std::string const& s)
    {
        Case c;
        std::size_t i = 0;
        auto ws = [&] { while (i < s.size() && (s[i] == ' ' || s[i] == '\n' || s[i] == '\t' || s[i] == '\r')) ++i; };
        auto expect = [&](char ch) {
            ws();
            if (i >= s.size() || s[i] != ch) throw std::runtime_error(std::string("case parse: expected ") + ch + " at " + std::to_string(i));
            ++i;
        };
        expect('{');
        ws();
        if (i < s.size() && s[i] == '}') return c;
        for (;;)
        {
            expect('"');
            std::string key;
            while (i < s.size() && s[i] != '"') key += s[i++];
            expect('"');
            expect(':');
            expect('[');
            std::vector<i64> v;
            ws();
            if (i < s.size() && s[i] == ']') { ++i; }
            else
                for (;;)
                {
                    ws();
                    std::size_t j = i;
                    if (j < s.size() && (s[j] == '-' || s[j] == '+')) ++j;
                    while (j < s.size() && s[j] >= '0' && s[j] <= '9') ++j;
                    if (j == i) throw std::runtime_error("case parse: number expected at " + std::to_string(i));
                    v.push_back(std::stoll(s.substr(i, j - i)));
                    i = j;
                    ws();
                    if (i < s.size() && s[i] == ',') { ++i; continue; }
                    expect(']');
                    break;
                }
            c.f.emplace_back(key, v);
            ws();
            if (i < s.size() && s[i] == ',') { ++i; continue; }
            expect('}');
            break;
        }
        return c;
    }
};

inline std::uint64_t mix64(std::uint64_t h, std::uint64_t v)
{
    h ^= v + 0x9e3779b97f4a7c15ULL + (h << 6) + (h >> 2);
    h *= 0xff51afd7ed558ccdULL;
    h ^= h >> 33;
    return h;
}
inline std::uint64_t hash_str(std::string const& s)
{
    std::uint64_t h = 1469598103934665603ULL;
    for (unsigned char c : s) { h ^= c; h *= 1099511628211ULL; }
    return h;
}
inline std::uint64_t fingerprint(Case const& c, std::vector<std::string> const& keys = {})
{
    std::uint64_t h = 0x1234567;
    for (auto& kv : c.f)
    {
        if (!keys.empty() && std::find(keys.begin(), keys.end(), kv.first) == keys.end()) continue;
        h = mix64(h, hash_str(kv.first));
        for (auto v : kv.second) h = mix64(h, static_cast<std::uint64_t>(v));
        h = mix64(h, 0xabcdef);
    }
    return h;
}

// deterministic small PRNG for *contents derived from a seed stored in the case* (never for choices
// that should shrink; those come from the generator library)
struct SplitMix
{
    std::uint64_t s;
    explicit SplitMix(std::uint64_t seed) : s(seed) {}
    std::uint64_t next()
    {
        std::uint64_t z = (s += 0x9e3779b97f4a7c15ULL);
        z = (z ^ (z >> 30)) * 0xbf58476d1ce4e5b9ULL;
        z = (z ^ (z >> 27)) * 0x94d049bb133111ebULL;
        return z ^ (z >> 31);
    }
    std::uint64_t below(std::uint64_t n) { return n ? next() % n : 0; }
};

// ---------------------------------------------------------------------------------------------
// current case, dumped if the process dies (sanitizer report, SIGSEGV on a guard page, abort)
namespace detail {
inline char*& cur_buf() { static char* b = new char[1 << 16]; return b; }
inline std::size_t& cur_len() { static std::size_t n = 0; return n; }
inline std::string& cur_path() { static std::string p; return p; }
inline std::function<void()>& death_hook() { static std::function<void()> f; return f; }
inline std::atomic<long long>& case_started() { static std::atomic<long long> t{0}; return t; }
inline std::atomic<long long>& case_started_cpu() { static std::atomic<long long> t{0}; return t; }
inline long long process_cpu_ms()
{
    timespec ts;
    if (::clock_gettime(CLOCK_PROCESS_CPUTIME_ID, &ts) != 0) return 0;
    return static_cast<long long>(ts.tv_sec) * 1000 + ts.tv_nsec / 1000000;
}
inline void dump_current()
{
    static bool done = false;
    if (done) return;
    done = true;
    if (!cur_path().empty() && cur_len() > 0)
    {
        int fd = ::open(cur_path().c_str(), O_WRONLY | O_CREAT | O_TRUNC, 0644);
        if (fd >= 0)
        {
            ssize_t r = ::write(fd, cur_buf(), cur_len());
            (void)r;
            ::close(fd);
        }
    }
    if (death_hook()) death_hook()();
}
inline void on_signal(int sig)
{
    dump_current();
    std::signal(sig, SIG_DFL);
    std::raise(sig);
}
} // namespace detail

inline void set_current_case(Case const& c, char const* target = "")
{
    std::string s = c.json();
    // target name travels inside the case so that replay can dispatch
    (void)target;
    std::size_t n = std::min<std::size_t>(s.size(), (1 << 16) - 1);
    std::memcpy(detail::cur_buf(), s.data(), n);
    detail::cur_len() = n;
    detail::case_started().store(std::chrono::duration_cast<std::chrono::milliseconds>(std::chrono::steady_clock::now().time_since_epoch()).count());
    detail::case_started_cpu().store(detail::process_cpu_ms());
    // VERIF_EAGER_DUMP=1: write the case to disk before running it (for crashes that also take the death callback down)
    static const bool eager = std::getenv("VERIF_EAGER_DUMP") != nullptr;
    if (eager && !detail::cur_path().empty())
    {
        int fd = ::open(detail::cur_path().c_str(), O_WRONLY | O_CREAT | O_TRUNC, 0644);
        if (fd >= 0) { ssize_t r = ::write(fd, detail::cur_buf(), detail::cur_len()); (void)r; ::close(fd); }
    }
}

// Watchdog: a single generated case normally takes micro- to milliseconds. A case that has CONSUMED more than VERIF_CASE_TIMEOUT
// seconds (default 120) of processor time is reported as non-terminating: the current case is dumped and the process exits with
// code 97 (the driver turns that into a violation with the case as replay). Processor time, not wall-clock time: on a loaded or
// memory-starved machine a process can be left unscheduled for minutes, and that must never look like a hang. A case that is still
// open after 20 minutes of wall-clock time without having used its processor budget ends the process with code 96, which the
// driver reports as INCONCLUSIVE (time budget), not as a violation.
inline void start_watchdog()
{
    static bool started = false;
    if (started) return;
    started = true;
    long limit_s = 120;
    if (char const* e = std::getenv("VERIF_CASE_TIMEOUT")) limit_s = std::max(5L, std::atol(e));
    std::thread([limit_s] {
        for (;;)
        {
            std::this_thread::sleep_for(std::chrono::seconds(1));
            long long st = detail::case_started().load();
            if (st == 0) continue;
            long long cpu0 = detail::case_started_cpu().load();
            long long cpu = detail::process_cpu_ms();
            if (detail::case_started().load() != st) continue; // another case began meanwhile
            if (cpu - cpu0 > limit_s * 1000)
            {
                std::fprintf(stderr, "WATCHDOG: the current case has used more than %ld s of processor time\n", limit_s);
                detail::dump_current();
                std::_Exit(97);
            }
            long long now = std::chrono::duration_cast<std::chrono::milliseconds>(std::chrono::steady_clock::now().time_since_epoch()).count();
            if (now - st > 20LL * 60 * 1000)
            {
                std::fprintf(stderr, "WATCHDOG: the current case has been open for 20 minutes of wall-clock time but used only %lld ms of processor time: machine stalled, inconclusive\n", cpu - cpu0);
                detail::dump_current();
                std::_Exit(96);
            }
        }
    }).detach();
}
inline void case_finished() { detail::case_started().store(0); }

extern "C" void __sanitizer_set_death_callback(void (*)(void)) __attribute__((weak));

inline void install_death_dump(std::string const& path)
{
    detail::cur_path() = path;
    if (&__sanitizer_set_death_callback) __sanitizer_set_death_callback(&detail::dump_current);
    std::signal(SIGABRT, &detail::on_signal);
#if defined(__has_feature)
#if __has_feature(address_sanitizer)
#define VERIF_HAS_ASAN 1
#endif
#endif
#if defined(__SANITIZE_ADDRESS__)
#define VERIF_HAS_ASAN 1
#endif
#if !defined(VERIF_HAS_ASAN)
    std::signal(SIGSEGV, &detail::on_signal);
    std::signal(SIGBUS, &detail::on_signal);
    std::signal(SIGFPE, &detail::on_signal);
#endif
}

// ---------------------------------------------------------------------------------------------
inline std::string json_escape(std::string const& s)
{
    std::string o;
    for (unsigned char c : s)
    {
        if (c == '"' || c == '\\') { o += '\\'; o += static_cast<char>(c); }
        else if (c == '\n') o += "\\n";
        else if (c < 0x20) { char b[8]; std::snprintf(b, sizeof b, "\\u%04x", c); o += b; }
        else o += static_cast<char>(c);
    }
    return o;
}

struct KnownResult
{
    std::string id;
    bool witness_fails;
    std::string what;
};

// Evidence for one harness binary. Thread-safe for the counters used by enumeration engines.
struct Evidence
{
    std::string target;
    std::atomic<std::uint64_t> evaluations{0};
    std::atomic<std::uint64_t> nontrivial_counter{0};   // used by enumeration engines (all inputs distinct by construction)
    std::atomic<std::uint64_t> excluded_known{0};
    std::mutex mu;
    std::unordered_set<std::uint64_t> nontrivial_set;    // used by random engines (fingerprints)
    std::vector<std::string> samples;                    // JSON values
    std::map<std::string, std::uint64_t> classes;
    std::vector<std::pair<std::string, std::string>> failures; // (case json, message)
    std::vector<KnownResult> known;
    std::vector<std::string> notes;
    bool exhaustive = false;
    std::string rule;
    std::uint64_t sample_tick = 0;

    void eval(std::uint64_t n = 1) { evaluations += n; }
    void classify(std::string const& k, std::uint64_t n = 1)
    {
        std::lock_guard<std::mutex> l(mu);
        classes[k] += n;
    }
    // random engines: record a non-trivial case by fingerprint
    void nontrivial(std::uint64_t fp)
    {
        std::lock_guard<std::mutex> l(mu);
        nontrivial_set.insert(fp);
    }
    void sample(std::string const& json_value)
    {
        std::lock_guard<std::mutex> l(mu);
        ++sample_tick;
        // keep the first 4, then those at power-of-two ticks, at most 10
        if (samples.size() < 4 || ((sample_tick & (sample_tick - 1)) == 0 && samples.size() < 10))
            samples.push_back(json_value);
    }
    void sample(Case const& c) { sample(c.json()); }
    void fail(std::string const& case_json, std::string const& msg)
    {
        std::lock_guard<std::mutex> l(mu);
        if (failures.size() < 5) failures.emplace_back(case_json, msg);
    }
    void fail(Case const& c, std::string const& msg) { fail(c.json(), msg); }
    std::size_t n_failures()
    {
        std::lock_guard<std::mutex> l(mu);
        return failures.size();
    }
    void note(std::string const& s)
    {
        std::lock_guard<std::mutex> l(mu);
        notes.push_back(s);
    }

    std::string json()
    {
        std::lock_guard<std::mutex> l(mu);
        std::ostringstream os;
        os << "{\"target\":\"" << json_escape(target) << "\",\"evaluations\":" << evaluations.load()
           << ",\"distinct_nontrivial\":" << (nontrivial_set.size() + nontrivial_counter.load())
           << ",\"excluded_known\":" << excluded_known.load() << ",\"exhaustive\":" << (exhaustive ? "true" : "false")
           << ",\"rule\":\"" << json_escape(rule) << "\",\"samples\":[";
        for (std::size_t i = 0; i < samples.size(); ++i) os << (i ? "," : "") << samples[i];
        os << "],\"classes\":{";
        bool first = true;
        for (auto& kv : classes) { os << (first ? "" : ",") << "\"" << json_escape(kv.first) << "\":" << kv.second; first = false; }
        os << "},\"failures\":[";
        for (std::size_t i = 0; i < failures.size(); ++i)
            os << (i ? "," : "") << "{\"case\":" << failures[i].first << ",\"msg\":\"" << json_escape(failures[i].second) << "\"}";
        os << "],\"known\":[";
        for (std::size_t i = 0; i < known.size(); ++i)
            os << (i ? "," : "") << "{\"id\":\"" << json_escape(known[i].id) << "\",\"witness_fails\":" << (known[i].witness_fails ? "true" : "false")
               << ",\"what\":\"" << json_escape(known[i].what) << "\"}";
        os << "],\"notes\":[";
        for (std::size_t i = 0; i < notes.size(); ++i) os << (i ? "," : "") << "\"" << json_escape(notes[i]) << "\"";
        os << "]}";
        return os.str();
    }
    void write(std::string const& path)
    {
        std::string s = json();
        FILE* f = std::fopen(path.c_str(), "w");
        if (!f) return;
        std::fwrite(s.data(), 1, s.size(), f);
        std::fclose(f);
    }
};

struct Args
{
    std::string tier = "quick";
    std::uint64_t seed = 1;
    std::string outdir = ".";
    std::string target;
    std::set<std::string> known; // ids of OPEN known findings the driver asks us to exclude + witness
    int threads = 16;
    bool thorough() const { return tier == "thorough"; }
    bool is_known(std::string const& id) const { return known.count(id) != 0; }
};

// ---------------------------------------------------------------------------------------------
// Guard-page buffer: `size` usable bytes placed flush against an inaccessible page at the end
// (or right after one at the start). Catches over-reads that ASan cannot see inside malloc slack.
class GuardBuf
{
    unsigned char* map_ = nullptr;
    std::size_t map_len_ = 0;
    unsigned char* data_ = nullptr;
    std::size_t size_ = 0;

public:
    GuardBuf() = default;
    GuardBuf(std::size_t size, bool flush_end = true, unsigned char fill = 0) { reset(size, flush_end, fill); }
    GuardBuf(GuardBuf const&) = delete;
    GuardBuf& operator=(GuardBuf const&) = delete;
    ~GuardBuf() { release(); }
    void release()
    {
        if (map_) ::munmap(map_, map_len_);
        map_ = nullptr;
        data_ = nullptr;
        size_ = 0;
    }
    void reset(std::size_t size, bool flush_end = true, unsigned char fill = 0)
    {
        release();
        std::size_t const pg = 4096;
        std::size_t body = ((size + pg - 1) / pg) * pg;
        if (body == 0) body = pg;
        map_len_ = body + 2 * pg;
        void* p = ::mmap(nullptr, map_len_, PROT_READ | PROT_WRITE, MAP_PRIVATE | MAP_ANONYMOUS, -1, 0);
        if (p == MAP_FAILED) throw std::bad_alloc();
        map_ = static_cast<unsigned char*>(p);
        std::memset(map_ + pg, fill, body);
        ::mprotect(map_, pg, PROT_NONE);
        ::mprotect(map_ + pg + body, pg, PROT_NONE);
        data_ = flush_end ? map_ + pg + body - size : map_ + pg;
        size_ = size;
    }
    unsigned char* data() const { return data_; }
    std::size_t size() const { return size_; }
    unsigned char* begin() const { return data_; }
    unsigned char* end() const { return data_ + size_; }
    // the whole accessible body (for canary checks around the buffer)
    unsigned char* body_begin() const { return map_ + 4096; }
    unsigned char* body_end() const { return map_ + map_len_ - 4096; }
};

// ---------------------------------------------------------------------------------------------
inline std::string read_file(std::string const& path)
{
    FILE* f = std::fopen(path.c_str(), "rb");
    if (!f) throw std::runtime_error("cannot open " + path);
    std::string s;
    char buf[4096];
    std::size_t n;
    while ((n = std::fread(buf, 1, sizeof buf, f)) > 0) s.append(buf, n);
    std::fclose(f);
    return s;
}

struct Timer
{
    std::chrono::steady_clock::time_point t0 = std::chrono::steady_clock::now();
    double s() const { return std::chrono::duration<double>(std::chrono::steady_clock::now() - t0).count(); }
};

} // namespace verif

// ---------------------------------------------------------------------------------------------
// BOOST_ASSERT capture: a GIL assertion inside the property's domain is a failure of the case,
// not an abort (so shrinking can continue and the message is kept).
namespace boost {
inline void assertion_failed(char const* expr, char const* function, char const* file, long line)
{
    std::ostringstream os;
    os << "BOOST_ASSERT(" << expr << ") failed in " << function << " @" << file << ":" << line;
    throw ::verif::AssertFail(os.str());
}
inline void assertion_failed_msg(char const* expr, char const* msg, char const* function, char const* file, long line)
{
    std::ostringstream os;
    os << "BOOST_ASSERT_MSG(" << expr << ", " << msg << ") failed in " << function << " @" << file << ":" << line;
    throw ::verif::AssertFail(os.str());
}
} // namespace boost

// harness-provided
void verif_run(verif::Args const& args, verif::Evidence& ev);
void verif_replay(verif::Case const& c);

namespace verif {
inline int main_impl(int argc, char** argv, char const* target_name)
{
    if (argc >= 3 && std::string(argv[1]) == "replay")
    {
        try
        {
            Case c = Case::parse(read_file(argv[2]));
            if (argc >= 4) install_death_dump(argv[3]);
            start_watchdog();
            set_current_case(c);
            verif_replay(c);
        }
        catch (Fail const& f)
        {
            std::printf("REPLAY-FAIL %s\n", f.what());
            return 1;
        }
        catch (std::exception const& e)
        {
            std::printf("REPLAY-FAIL unexpected exception: %s\n", e.what());
            return 1;
        }
        std::printf("REPLAY-PASS\n");
        return 0;
    }
    if (argc < 5 || std::string(argv[1]) != "run")
    {
        std::fprintf(stderr, "usage: %s run <tier> <seed> <outdir> [known,ids] [threads] | replay <case.json>\n", argv[0]);
        return 2;
    }
    Args a;
    a.tier = argv[2];
    a.seed = std::strtoull(argv[3], nullptr, 10);
    if (a.seed == 0) a.seed = 1;
    a.outdir = argv[4];
    a.target = target_name;
    if (argc >= 6)
    {
        std::string k = argv[5], cur;
        for (char ch : k + ",")
        {
            if (ch == ',') { if (!cur.empty() && cur != "-") a.known.insert(cur); cur.clear(); }
            else cur += ch;
        }
    }
    if (argc >= 7) a.threads = std::max(1, std::atoi(argv[6]));
    static Evidence ev; // static: reachable from the death hook
    ev.target = target_name;
    std::string evpath = a.outdir + "/" + target_name + ".evidence.json";
    install_death_dump(a.outdir + "/" + target_name + ".current_case.json");
    detail::death_hook() = [evpath] { ev.write(evpath); };
    start_watchdog();
    Timer t;
    int rc = 0;
    try
    {
        verif_run(a, ev);
    }
    catch (std::exception const& e)
    {
        ev.fail("{}", std::string("harness-level exception: ") + e.what());
    }
    case_finished();
    ev.note("wall_s=" + std::to_string(t.s()));
    if (ev.n_failures() > 0) rc = 1;
    ev.write(evpath);
    detail::death_hook() = nullptr;   // the evidence object does not outlive main: nothing to flush at exit-time deaths (LeakSanitizer)
    detail::cur_path().clear();
    return rc;
}
} // namespace verif

#define VERIF_MAIN(NAME) \
    int main(int argc, char** argv) { return ::verif::main_impl(argc, argv, NAME); }

#endif
