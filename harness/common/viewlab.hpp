// Shared machinery for the view properties (C01-C04, C09 view level): configuration matrix of image types,
// identity-tagged root images (owned or over guard-page buffers), view programs interpreted both on the
// library (type-changing, continuation passing) and on an affine coordinate model.
#ifndef VERIF_VIEWLAB_HPP
#define VERIF_VIEWLAB_HPP

#include "verif.hpp"

#include <boost/gil.hpp>
#include <boost/mp11.hpp>

#include <memory>

namespace vl {
namespace gil = boost::gil;
namespace mp = boost::mp11;
using verif::Case;
using verif::i64;

// ------------------------------------------------------------------------------------------------ channels
template <class R> struct chinfo
{
    using V = typename gil::channel_traits<R>::value_type;
    static constexpr bool is_float = std::is_same<V, gil::float32_t>::value;
    static double lo() { return static_cast<double>(gil::channel_traits<R>::min_value()); }
    static double hi() { return static_cast<double>(gil::channel_traits<R>::max_value()); }
};
template <> struct chinfo<gil::float32_t>
{
    using V = gil::float32_t;
    static constexpr bool is_float = true;
    static double lo() { return 0.0; }
    static double hi() { return 1.0; }
};

template <class Ch> void assign_ch(Ch&& ch, double v)
{
    using R = std::decay_t<Ch>;
    using V = typename gil::channel_traits<R>::value_type;
    if constexpr (std::is_arithmetic<V>::value) ch = static_cast<V>(v);
    else if constexpr (std::is_same<V, gil::float32_t>::value) ch = V(static_cast<float>(v));
    else ch = V(static_cast<typename V::integer_t>(v));
}
template <class Ch> double read_ch(Ch&& ch)
{
    using R = std::decay_t<Ch>;
    using V = typename gil::channel_traits<R>::value_type;
    if constexpr (std::is_arithmetic<V>::value) return static_cast<double>(static_cast<V>(ch));
    else if constexpr (std::is_same<V, gil::float32_t>::value) return static_cast<double>(static_cast<float>(ch));
    else return static_cast<double>(static_cast<typename V::integer_t>(ch));
}

template <class P> constexpr int nchan() { return static_cast<int>(gil::num_channels<std::decay_t<P>>::value); }

template <class P> double get_ch(P const& p, int k)
{
    double r = 0;
    mp::mp_with_index<gil::num_channels<std::decay_t<P>>::value>(static_cast<std::size_t>(k), [&](auto I) { r = read_ch(gil::at_c<decltype(I)::value>(p)); });
    return r;
}
template <class P> void set_ch(P&& p, int k, double v) // p: pixel<T,L>& or a reference proxy
{
    mp::mp_with_index<gil::num_channels<std::decay_t<P>>::value>(static_cast<std::size_t>(k), [&](auto I) { assign_ch(gil::at_c<decltype(I)::value>(p), v); });
}
template <class P> void set_ch_ref(P& p, int k, double v)
{
    mp::mp_with_index<gil::num_channels<std::decay_t<P>>::value>(static_cast<std::size_t>(k), [&](auto I) { assign_ch(gil::at_c<decltype(I)::value>(p), v); });
}
template <class P> double ch_lo(P const& p, int k)
{
    double r = 0;
    mp::mp_with_index<gil::num_channels<std::decay_t<P>>::value>(static_cast<std::size_t>(k), [&](auto I) { r = chinfo<std::decay_t<decltype(gil::at_c<decltype(I)::value>(p))>>::lo(); });
    return r;
}
template <class P> double ch_hi(P const& p, int k)
{
    double r = 0;
    mp::mp_with_index<gil::num_channels<std::decay_t<P>>::value>(static_cast<std::size_t>(k), [&](auto I) { r = chinfo<std::decay_t<decltype(gil::at_c<decltype(I)::value>(p))>>::hi(); });
    return r;
}
template <class P> bool ch_is_float(P const& p, int k)
{
    bool r = false;
    mp::mp_with_index<gil::num_channels<std::decay_t<P>>::value>(static_cast<std::size_t>(k), [&](auto I) { r = chinfo<std::decay_t<decltype(gil::at_c<decltype(I)::value>(p))>>::is_float; });
    return r;
}

// identity tag of channel k of root pixel (x,y): a pure function of (seed,x,y,k), inside the channel's range
inline std::uint64_t tag_hash(std::uint64_t seed, i64 x, i64 y, int k)
{
    return verif::mix64(verif::mix64(seed, static_cast<std::uint64_t>(x * 73856093LL) ^ static_cast<std::uint64_t>(y * 19349663LL)), static_cast<std::uint64_t>(k) * 83492791ULL + 7);
}
inline double tag_in_range(std::uint64_t h, double lo, double hi, bool is_float)
{
    if (is_float) return static_cast<double>(static_cast<float>(lo + (hi - lo) * static_cast<double>(static_cast<float>(h % 4096) / 4095.0f)));
    double range = hi - lo;
    std::uint64_t n = range >= 4294967295.0 ? 4294967296ULL : static_cast<std::uint64_t>(range) + 1;
    return lo + static_cast<double>(h % n);
}
template <class P> double tag_for(P const& p, std::uint64_t seed, i64 x, i64 y, int k)
{
    return tag_in_range(tag_hash(seed, x, y, k), ch_lo(p, k), ch_hi(p, k), ch_is_float(p, k));
}

template <class View> void fill_tags(View const& v, std::uint64_t seed)
{
    for (i64 y = 0; y < v.height(); ++y)
        for (i64 x = 0; x < v.width(); ++x)
        {
            auto&& p = v(x, y);
            for (int k = 0; k < nchan<typename View::value_type>(); ++k) set_ch(p, k, tag_for(p, seed, x, y, k));
        }
}

// ------------------------------------------------------------------------------------------------ configurations
using g1_img = gil::bit_aligned_image1_type<1, gil::gray_layout_t>::type;
using g2_img = gil::bit_aligned_image1_type<2, gil::gray_layout_t>::type;
using g4_img = gil::bit_aligned_image1_type<4, gil::gray_layout_t>::type;
using ba222_img = gil::bit_aligned_image3_type<2, 2, 2, gil::rgb_layout_t>::type;
using ba565_img = gil::bit_aligned_image3_type<5, 6, 5, gil::rgb_layout_t>::type;
using ba121_img = gil::bit_aligned_image3_type<1, 2, 1, gil::rgb_layout_t>::type;
using ba232_img = gil::bit_aligned_image3_type<2, 3, 2, gil::bgr_layout_t>::type;
using ba8888_img = gil::bit_aligned_image4_type<8, 8, 8, 8, gil::rgba_layout_t>::type;
using ba10_img = gil::bit_aligned_image4_type<10, 10, 10, 10, gil::rgba_layout_t>::type;
using pk565_img = gil::packed_image3_type<std::uint16_t, 5, 6, 5, gil::rgb_layout_t>::type;
using pk556_img = gil::packed_image3_type<std::uint16_t, 5, 5, 6, gil::bgr_layout_t>::type;
using pk4444_img = gil::packed_image4_type<std::uint16_t, 4, 4, 4, 4, gil::rgba_layout_t>::type;
using dn2_img = gil::image<gil::pixel<std::uint8_t, gil::devicen_layout_t<2>>, false>;
using dn5p_img = gil::image<gil::pixel<std::uint8_t, gil::devicen_layout_t<5>>, true>;

enum Kind { K_INTERLEAVED, K_PLANAR, K_PACKED, K_BITALIGNED };

template <class Img, Kind KND, bool Homog, bool HasCC> struct CfgT
{
    using image_t = Img;
    static constexpr Kind kind = KND;
    static constexpr bool homogeneous = Homog; // nth_channel_view applicable
    static constexpr bool has_cc = HasCC;      // default colour converter exists for the colour space
};

using AllConfigs = mp::mp_list<
    /* 0*/ CfgT<gil::gray8_image_t, K_INTERLEAVED, true, true>,
    /* 1*/ CfgT<gil::gray16_image_t, K_INTERLEAVED, true, true>,
    /* 2*/ CfgT<gil::gray32f_image_t, K_INTERLEAVED, true, true>,
    /* 3*/ CfgT<gil::rgb8_image_t, K_INTERLEAVED, true, true>,
    /* 4*/ CfgT<gil::bgr8_image_t, K_INTERLEAVED, true, true>,
    /* 5*/ CfgT<gil::rgba8_image_t, K_INTERLEAVED, true, true>,
    /* 6*/ CfgT<gil::argb8_image_t, K_INTERLEAVED, true, true>,
    /* 7*/ CfgT<gil::cmyk8_image_t, K_INTERLEAVED, true, true>,
    /* 8*/ CfgT<gil::rgb16_image_t, K_INTERLEAVED, true, true>,
    /* 9*/ CfgT<gil::rgb32f_image_t, K_INTERLEAVED, true, true>,
    /*10*/ CfgT<gil::rgb16s_image_t, K_INTERLEAVED, true, true>,
    /*11*/ CfgT<gil::rgb8_planar_image_t, K_PLANAR, true, true>,
    /*12*/ CfgT<gil::rgba8_planar_image_t, K_PLANAR, true, true>,
    /*13*/ CfgT<gil::cmyk16_planar_image_t, K_PLANAR, true, true>,
    /*14*/ CfgT<pk565_img, K_PACKED, false, true>,
    /*15*/ CfgT<pk556_img, K_PACKED, false, true>,
    /*16*/ CfgT<pk4444_img, K_PACKED, false, false>,
    /*17*/ CfgT<g1_img, K_BITALIGNED, false, true>,
    /*18*/ CfgT<g2_img, K_BITALIGNED, false, true>,
    /*19*/ CfgT<g4_img, K_BITALIGNED, false, true>,
    /*20*/ CfgT<ba222_img, K_BITALIGNED, false, true>,
    /*21*/ CfgT<ba565_img, K_BITALIGNED, false, true>,
    /*22*/ CfgT<ba121_img, K_BITALIGNED, false, true>,
    /*23*/ CfgT<ba232_img, K_BITALIGNED, false, true>,
    /*24*/ CfgT<ba8888_img, K_BITALIGNED, false, false>,
    /*25*/ CfgT<ba10_img, K_BITALIGNED, false, false>,
    /*26*/ CfgT<dn2_img, K_INTERLEAVED, true, false>,
    /*27*/ CfgT<dn5p_img, K_PLANAR, true, false>>;
constexpr int NCFG = static_cast<int>(mp::mp_size<AllConfigs>::value);
inline const char* cfg_name(int i)
{
    static const char* n[] = {"gray8", "gray16", "gray32f", "rgb8", "bgr8", "rgba8", "argb8", "cmyk8", "rgb16", "rgb32f", "rgb16s", "rgb8_planar", "rgba8_planar", "cmyk16_planar",
                              "packed565", "packed556bgr", "packed4444", "ba_gray1", "ba_gray2", "ba_gray4", "ba_rgb222", "ba_rgb565", "ba_rgb121", "ba_bgr232", "ba_rgba8888", "ba_rgba10",
                              "devicen2", "devicen5_planar"};
    return (i >= 0 && i < NCFG) ? n[i] : "?";
}

// bits per pixel of the *memory unit stride* in x, for computing exact row sizes of caller-supplied buffers
template <class View> i64 pixel_bits()
{
    using it = typename View::x_iterator;
    return static_cast<i64>(gil::memunit_step(it())) * 8 / static_cast<i64>(gil::byte_to_memunit<it>::value);
}

// ------------------------------------------------------------------------------------------------ view programs
enum OpKind { OP_FLIP_UD = 0, OP_FLIP_LR, OP_TRANSPOSE, OP_ROT90CW, OP_ROT90CCW, OP_ROT180, OP_SUBIMAGE, OP_SUBSAMPLE, OP_COUNT };
inline const char* op_name(int k)
{
    static const char* n[] = {"flipUD", "flipLR", "transpose", "rot90cw", "rot90ccw", "rot180", "subimage", "subsample"};
    return (k >= 0 && k < OP_COUNT) ? n[k] : "?";
}
struct Op
{
    int kind;
    i64 a, b, c, d; // subimage: x,y,w,h ; subsample: sx,sy
};
using Prog = std::vector<Op>;

inline Prog prog_from(std::vector<i64> const& v)
{
    Prog p;
    for (std::size_t i = 0; i + 4 < v.size() + 0 && i + 5 <= v.size(); i += 5) p.push_back(Op{static_cast<int>(v[i]), v[i + 1], v[i + 2], v[i + 3], v[i + 4]});
    return p;
}
inline std::vector<i64> prog_to(Prog const& p)
{
    std::vector<i64> v;
    for (auto const& o : p) { v.push_back(o.kind); v.push_back(o.a); v.push_back(o.b); v.push_back(o.c); v.push_back(o.d); }
    return v;
}

// Affine coordinate model: derived (x,y) -> root (m00 x + m01 y + ox, m10 x + m11 y + oy); chan >= 0 selects one channel
struct Model
{
    i64 w = 0, h = 0;
    i64 m00 = 1, m01 = 0, m10 = 0, m11 = 1, ox = 0, oy = 0;
    int chan = -1;
    void root(i64 x, i64 y, i64& rx, i64& ry) const { rx = m00 * x + m01 * y + ox; ry = m10 * x + m11 * y + oy; }
    // compose with f(x,y) = (a00 x + a01 y + bx, a10 x + a11 y + by), new dims (nw,nh)
    void compose(i64 a00, i64 a01, i64 a10, i64 a11, i64 bx, i64 by, i64 nw, i64 nh)
    {
        i64 n00 = m00 * a00 + m01 * a10, n01 = m00 * a01 + m01 * a11, n10 = m10 * a00 + m11 * a10, n11 = m10 * a01 + m11 * a11;
        i64 nox = m00 * bx + m01 * by + ox, noy = m10 * bx + m11 * by + oy;
        m00 = n00; m01 = n01; m10 = n10; m11 = n11; ox = nox; oy = noy; w = nw; h = nh;
    }
    // documented formulas (image_view_factory.hpp / design guide)
    bool apply(Op const& o)
    {
        switch (o.kind)
        {
        case OP_FLIP_UD: compose(1, 0, 0, -1, 0, h - 1, w, h); return true;        // (x, h-1-y)
        case OP_FLIP_LR: compose(-1, 0, 0, 1, w - 1, 0, w, h); return true;        // (w-1-x, y)
        case OP_TRANSPOSE: compose(0, 1, 1, 0, 0, 0, h, w); return true;           // (y, x)
        case OP_ROT90CW: compose(0, 1, -1, 0, 0, h - 1, h, w); return true;        // (y, h-1-x)
        case OP_ROT90CCW: compose(0, -1, 1, 0, w - 1, 0, h, w); return true;       // (w-1-y, x)
        case OP_ROT180: compose(-1, 0, 0, -1, w - 1, h - 1, w, h); return true;    // (w-1-x, h-1-y)
        case OP_SUBIMAGE:
            if (o.a < 0 || o.b < 0 || o.c < 0 || o.d < 0 || o.a + o.c > w || o.b + o.d > h) return false;
            compose(1, 0, 0, 1, o.a, o.b, o.c, o.d);
            return true;
        case OP_SUBSAMPLE:
            if (o.a < 1 || o.b < 1) return false;
            compose(o.a, 0, 0, o.b, 0, 0, (w + o.a - 1) / o.a, (h + o.b - 1) / o.b);
            return true;
        default: return false;
        }
    }
    bool apply_all(Prog const& p)
    {
        for (auto const& o : p) if (!apply(o)) return false;
        return true;
    }
};

// library side: every op is applied with its natural return type; for memory based views the closure of types
// under all ops is {V, dynamic_xy_step_type<V>}, so the recursion below instantiates a bounded set.
template <class V, class K> void apply_op(V const& v, Op const& o, K&& k)
{
    switch (o.kind)
    {
    case OP_FLIP_UD: k(gil::flipped_up_down_view(v)); return;
    case OP_FLIP_LR: k(gil::flipped_left_right_view(v)); return;
    case OP_TRANSPOSE: k(gil::transposed_view(v)); return;
    case OP_ROT90CW: k(gil::rotated90cw_view(v)); return;
    case OP_ROT90CCW: k(gil::rotated90ccw_view(v)); return;
    case OP_ROT180: k(gil::rotated180_view(v)); return;
    case OP_SUBSAMPLE: if ((o.a + o.b) & 1) k(gil::subsampled_view(v, o.a, o.b)); else k(gil::subsampled_view(v, typename V::point_t(o.a, o.b))); return;
    case OP_SUBIMAGE:
        if ((o.a + o.b) & 1) k(gil::subimage_view(v, o.a, o.b, o.c, o.d));
        else k(gil::subimage_view(v, typename V::point_t(o.a, o.b), typename V::point_t(o.c, o.d)));
        return;
    default: throw verif::Fail("apply_op: bad op");
    }
}
// continuation receives the final view
template <class V, class K> void run_ops(V const& v, Prog const& p, std::size_t i, K&& k)
{
    if (i == p.size()) { k(v); return; }
    apply_op(v, p[i], [&](auto const& nv) { run_ops(nv, p, i + 1, k); });
}

// ------------------------------------------------------------------------------------------------ roots
enum RootKind { ROOT_IMAGE = 0, ROOT_GUARD_END = 1, ROOT_GUARD_BEGIN = 2 };

struct RootInfo
{
    unsigned char* base = nullptr; // caller-supplied buffer (guard kinds) or nullptr
    std::size_t size = 0;
    i64 row_bytes = 0;
};

// raw-memory view over a buffer, per organisation
template <class Cfg> struct RawView
{
    using image_t = typename Cfg::image_t;
    using view_t = typename image_t::view_t;
    static i64 bits_() { static const i64 b = pixel_bits<view_t>(); return b; }
    static constexpr int planes = Cfg::kind == K_PLANAR ? static_cast<int>(gil::num_channels<view_t>::value) : 1;
    static i64 row_bytes(i64 w, i64 pad_bytes) { return (w * bits_() + 7) / 8 + pad_bytes; }
    static std::size_t total(i64 w, i64 h, i64 pad_bytes) { return static_cast<std::size_t>(row_bytes(w, pad_bytes) * h * planes); }
    static view_t make(unsigned char* p, i64 w, i64 h, i64 pad_bytes)
    {
        i64 rb = row_bytes(w, pad_bytes);
        using x_it = typename view_t::x_iterator;
        using loc_t = typename view_t::locator;
        if constexpr (Cfg::kind == K_PLANAR)
        {
            using ch_t = typename gil::channel_type<view_t>::type;
            x_it first;
            for (int i = 0; i < planes; ++i) dynamic_at_c(first, i) = reinterpret_cast<ch_t*>(p + rb * h * i);
            return view_t(w, h, loc_t(first, rb));
        }
        else if constexpr (Cfg::kind == K_BITALIGNED)
            return view_t(w, h, loc_t(x_it(p, 0), rb * 8)); // row size in bits
        else
            return view_t(w, h, loc_t(x_it(reinterpret_cast<typename view_t::value_type*>(p)), rb));
    }
};

// builds the root (image with alignment, or exact-size guard buffer), fills identity tags, calls k(view, info)
template <class Cfg, class K> void with_root(int root_kind, i64 w, i64 h, i64 align_or_pad, std::uint64_t seed, K&& k)
{
    using image_t = typename Cfg::image_t;
    RootInfo info;
    if (root_kind == ROOT_IMAGE)
    {
        image_t img(w, h, static_cast<std::size_t>(align_or_pad));
        // (an image constructed with exactly one zero dimension and no alignment reports 0x0: not part of any listed clause, tolerated)
        if (w > 0 && h > 0) VCHECK(img.width() == w && img.height() == h, "image dimensions differ from the requested ones");
        fill_tags(gil::view(img), seed);
        k(gil::view(img), info);
    }
    else
    {
        using RV = RawView<Cfg>;
        // a caller-supplied buffer has to respect the pixel type's alignment: keep the row size a multiple of it
        if constexpr (Cfg::kind != K_BITALIGNED)
        {
            constexpr i64 al = static_cast<i64>(alignof(typename image_t::view_t::value_type));
            align_or_pad = (align_or_pad + al - 1) / al * al;
        }
        std::size_t n = RV::total(w, h, align_or_pad);
        verif::GuardBuf buf(n, root_kind == ROOT_GUARD_END, 0xA5);
        info.base = buf.data();
        info.size = n;
        info.row_bytes = RV::row_bytes(w, align_or_pad);
        auto v = RV::make(buf.data(), w, h, align_or_pad);
        fill_tags(v, seed);
        k(v, info);
    }
}

template <class Fn> void with_config(int cfg, Fn&& fn)
{
    if (cfg < 0 || cfg >= NCFG) throw verif::Fail("bad configuration index");
    mp::mp_with_index<mp::mp_size<AllConfigs>::value>(static_cast<std::size_t>(cfg), [&](auto I) { fn(mp::mp_at_c<AllConfigs, decltype(I)::value>()); });
}

// harness TUs are split into groups of configurations to bound compile time: VL_GROUP in 0..VL_NGROUPS-1 (or -1 = all)
#ifndef VL_GROUP
#define VL_GROUP -1
#endif
#ifndef VL_NGROUPS
#define VL_NGROUPS 4
#endif
inline bool cfg_in_group(int cfg) { return VL_GROUP < 0 || (cfg % VL_NGROUPS) == VL_GROUP; }
template <class Fn> void with_config_in_group(int cfg, Fn&& fn)
{
    if (cfg < 0 || cfg >= NCFG) throw verif::Fail("bad configuration index");
    mp::mp_with_index<mp::mp_size<AllConfigs>::value>(static_cast<std::size_t>(cfg), [&](auto I) {
        constexpr int idx = static_cast<int>(decltype(I)::value);
        if constexpr (VL_GROUP < 0 || (idx % VL_NGROUPS) == VL_GROUP) fn(mp::mp_at_c<AllConfigs, decltype(I)::value>());
        else throw verif::Fail("configuration not compiled into this harness group");
    });
}
inline std::vector<int> group_configs()
{
    std::vector<int> v;
    for (int i = 0; i < NCFG; ++i) if (cfg_in_group(i)) v.push_back(i);
    return v;
}

} // namespace vl

#endif
