// C16: threshold, morphology and median filters satisfy their per-pixel definitions.
//
// Oracles, all recomputed per pixel and channel from the definitions:
//   threshold_binary / threshold_truncate: the documented comparison "px > T" with the documented outcomes per mode and direction;
//   threshold_optimal: output in {0, max} and, per channel, separable by a single threshold (every source value mapped to max lies strictly
//     on one side of every value mapped to 0, side by direction); runs under ASan/UBSan for constant, empty, two-level, narrow and full range;
//   dilate / erode / opening / closing: max / min over the in-image neighbourhood given by a symmetric structuring element, iterated;
//     plus the lattice laws (erode <= src <= dilate, monotone, opening <= src <= closing, idempotence) on the library's own output;
//   median_filter: the middle element of the sorted k x k neighbourhood with coordinates clamped to the image (edge replication).
// Source and destination are guard-page buffers of exactly the view's size.
#include "common/rcx.hpp"
#include "common/viewlab.hpp"

#include <boost/gil/image_processing/filter.hpp>
#include <boost/gil/image_processing/morphology.hpp>
#include <boost/gil/image_processing/threshold.hpp>

namespace gil = boost::gil;
namespace mp = boost::mp11;
using verif::Case;
using verif::i64;
using vl::get_ch;
using vl::nchan;
using vl::set_ch;

#ifndef VERIF_TARGET_NAME
#define VERIF_TARGET_NAME "c16_tmm"
#endif

using Types = mp::mp_list<gil::gray8_pixel_t, gil::gray16_pixel_t, gil::gray8s_pixel_t, gil::gray16s_pixel_t, gil::rgb8_pixel_t, gil::rgb16s_pixel_t, gil::gray32f_pixel_t>;
constexpr int NT = static_cast<int>(mp::mp_size<Types>::value);
static const char* type_name[NT] = {"gray8", "gray16", "gray8s", "gray16s", "rgb8", "rgb16s", "gray32f"};

template <class P> struct Root
{
    using view_t = typename gil::type_from_x_iterator<P*>::view_t;
    verif::GuardBuf buf;
    view_t v;
    Root(i64 w, i64 h, bool guard_end, unsigned char fill = 0xA5)
    {
        buf.reset(static_cast<std::size_t>(w * h) * sizeof(P), guard_end, fill);
        v = gil::interleaved_view(w, h, reinterpret_cast<P*>(buf.data()), w * static_cast<i64>(sizeof(P)));
    }
};
template <class P> double lo_of() { return vl::ch_lo(P(), 0); }
template <class P> double hi_of() { return vl::ch_hi(P(), 0); }
template <class P> constexpr bool is_float_px() { return std::is_same<typename gil::channel_type<P>::type, gil::float32_t>::value; }

// contents: kind 0 random full range, 1 constant, 2 two levels, 3 narrow range (ties), 4 extremes only, 5 gradient
template <class View> void fill_kind(View const& v, int kind, std::uint64_t seed)
{
    using P = typename View::value_type;
    verif::SplitMix r(seed);
    double lo = lo_of<P>(), hi = hi_of<P>();
    auto rnd = [&](double a, double b) {
        if (is_float_px<P>()) return static_cast<double>(static_cast<float>(a + (b - a) * (static_cast<double>(r.below(1025)) / 1024.0)));
        return a + static_cast<double>(r.below(static_cast<std::uint64_t>(b - a) + 1));
    };
    double c0 = rnd(lo, hi), c1 = rnd(lo, hi);
    double nlo = rnd(lo, hi), nhi = is_float_px<P>() ? std::min(hi, nlo + 0.01) : std::min(hi, nlo + 3);
    for (i64 y = 0; y < v.height(); ++y)
        for (i64 x = 0; x < v.width(); ++x)
        {
            auto&& p = v(x, y);
            for (int k = 0; k < nchan<P>(); ++k)
            {
                double val;
                switch (kind)
                {
                case 1: val = c0; break;
                case 2: val = r.below(2) ? c0 : c1; break;
                case 3: val = rnd(nlo, nhi); break;
                case 4: val = r.below(2) ? lo : hi; break;
                case 5: val = is_float_px<P>() ? static_cast<double>(static_cast<float>(lo + (hi - lo) * static_cast<double>((x + y * v.width()) % 17) / 16.0)) : lo + std::fmod(static_cast<double>(x * 37 + y * 101 + k * 7), hi - lo + 1); break;
                default: val = rnd(lo, hi);
                }
                set_ch(p, k, val);
            }
        }
}
template <class View> std::vector<double> dump(View const& v)
{
    std::vector<double> r;
    for (i64 y = 0; y < v.height(); ++y)
        for (i64 x = 0; x < v.width(); ++x)
        {
            typename View::value_type p = v(x, y);
            for (int k = 0; k < nchan<typename View::value_type>(); ++k) r.push_back(get_ch(p, k));
        }
    return r;
}
template <class Fn> static void with_type(int t, Fn&& fn) { mp::mp_with_index<NT>(static_cast<std::size_t>(t), [&](auto I) { fn(mp::mp_at_c<Types, decltype(I)::value>()); }); }

// ------------------------------------------------------------------------------------------------ thresholds
template <class P> typename gil::channel_type<P>::type to_channel(double v)
{
    using Ch = typename gil::channel_type<P>::type;
    if constexpr (is_float_px<P>()) return Ch(static_cast<float>(v));
    else return static_cast<Ch>(v);
}
template <class SP, class DP> static void thresh_mixed(Case const& c, const char* name);
static void run_thresh(Case const& c)
{
    if ((c.get("seed") & 3) == 0) // a quarter of the gray8 / gray16 cases use a destination of the other channel width
    {
        int t = static_cast<int>(c.get("type")) % 6;
        if (t == 0) { thresh_mixed<gil::gray8_pixel_t, gil::gray16_pixel_t>(c, "gray8->gray16"); return; }
        if (t == 1) { thresh_mixed<gil::gray16_pixel_t, gil::gray8_pixel_t>(c, "gray16->gray8"); return; }
    }
    // float32 channels are not a provided configuration of the threshold functions (their lambdas do not compile for scoped_channel_value)
    with_type(static_cast<int>(c.get("type")) % 6, [&](auto PT) {
        using P = decltype(PT);
        if constexpr (!is_float_px<P>()) {
        i64 w = c.get("w"), h = c.get("h");
        std::uint64_t seed = static_cast<std::uint64_t>(c.get("seed"));
        bool ge = c.get("guard") != 0;
        Root<P> src(w, h, ge), dst(w, h, !ge, 0x3C);
        fill_kind(src.v, static_cast<int>(c.get("kind")) % 6, seed);
        auto sv = dump(src.v);
        double lo = lo_of<P>(), hi = hi_of<P>();
        // threshold: a range end, a value next to a range end, a value present in the image, or random
        verif::SplitMix r(seed ^ 0x77);
        double T;
        switch (c.get("tsel") % 6)
        {
        case 0: T = lo; break;
        case 1: T = hi; break;
        case 2: T = is_float_px<P>() ? lo + 0.001 : lo + 1; break;
        case 3: T = is_float_px<P>() ? hi - 0.001 : hi - 1; break;
        case 4: T = sv.empty() ? lo : sv[r.below(sv.size())]; break;
        default: T = is_float_px<P>() ? static_cast<double>(static_cast<float>(lo + (hi - lo) * static_cast<double>(r.below(1025)) / 1024.0)) : lo + static_cast<double>(r.below(static_cast<std::uint64_t>(hi - lo) + 1));
        }
        auto Tc = to_channel<P>(T);
        T = vl::read_ch(Tc);
        int fn = static_cast<int>(c.get("fn")) % 3; // 0 threshold_binary(T, max), 1 threshold_binary(T), 2 threshold_truncate
        bool inverse = c.get("inverse") != 0, zero_mode = c.get("zero") != 0, defaults = c.get("defaults") != 0;
        double M = is_float_px<P>() ? 0.75 : lo + static_cast<double>(r.below(static_cast<std::uint64_t>(hi - lo) + 1));
        auto Mc = to_channel<P>(M);
        M = vl::read_ch(Mc);
        auto dir = inverse ? gil::threshold_direction::inverse : gil::threshold_direction::regular;
        auto mode = zero_mode ? gil::threshold_truncate_mode::zero : gil::threshold_truncate_mode::threshold;
        std::string what = std::string(type_name[static_cast<int>(c.get("type")) % 6]) + (fn == 0 ? " threshold_binary(T,max)" : fn == 1 ? " threshold_binary(T)" : " threshold_truncate") + (inverse ? " inverse" : " regular") +
                           (fn == 2 ? (zero_mode ? " zero" : " threshold") : "") + " T=" + std::to_string(T);
        if (fn == 0) { if (defaults && !inverse) gil::threshold_binary(src.v, dst.v, Tc, Mc); else gil::threshold_binary(src.v, dst.v, Tc, Mc, dir); }
        else if (fn == 1) { if (defaults && !inverse) gil::threshold_binary(src.v, dst.v, Tc); else gil::threshold_binary(src.v, dst.v, Tc, dir); M = hi; }
        else { if (defaults && !inverse && !zero_mode) gil::threshold_truncate(src.v, dst.v, Tc); else gil::threshold_truncate(src.v, dst.v, Tc, mode, dir); }
        auto dv = dump(dst.v);
        VCHECK(dump(src.v) == sv, what, ": source changed");
        for (std::size_t i = 0; i < sv.size(); ++i)
        {
            double px = sv[i], want;
            bool gt = px > T;
            if (fn < 2) want = inverse ? (gt ? 0 : M) : (gt ? M : 0);
            else if (!zero_mode) want = inverse ? (gt ? px : T) : (gt ? T : px);
            else want = inverse ? (gt ? 0 : px) : (gt ? px : 0);
            VCHECK(dv[i] == want, what, ": channel value ", px, " gave ", dv[i], ", the documented rule gives ", want, " (element ", i, ")");
        }
        }
    });
}

// Source and destination views of DIFFERENT channel widths (the functions take the threshold in the destination's channel type and compare
// the source channel with it): gray16 -> gray8 and gray8 -> gray16.  Only combinations whose documented outcome always fits the destination
// channel are generated: threshold_binary (all), and for a wider source threshold_truncate {threshold mode, regular} and {zero mode, inverse}.
template <class SP, class DP> static void thresh_mixed(Case const& c, const char* name)
{
    i64 w = c.get("w"), h = c.get("h");
    std::uint64_t seed = static_cast<std::uint64_t>(c.get("seed"));
    bool ge = c.get("guard") != 0;
    Root<SP> src(w, h, ge);
    Root<DP> dst(w, h, !ge, 0x3C);
    fill_kind(src.v, static_cast<int>(c.get("kind")) % 6, seed);
    verif::SplitMix r(seed ^ 0x99);
    double dlo = lo_of<DP>(), dhi = hi_of<DP>(), shi = hi_of<SP>();
    bool wider = shi > dhi;
    if (wider) // every second source value is brought next to the destination's range so that both outcomes of the comparison occur
        for (i64 y = 0; y < h; ++y)
            for (i64 x = 0; x < w; ++x)
                if (r.below(2)) set_ch(src.v(x, y), 0, std::fmod(get_ch(src.v(x, y), 0), 2 * (dhi + 1)));
    auto sv = dump(src.v);
    double T = dlo + static_cast<double>(r.below(static_cast<std::uint64_t>(std::min(dhi, shi) - dlo) + 1));
    if (c.get("tsel") % 6 == 4 && !sv.empty()) { double cand = sv[r.below(sv.size())]; if (cand <= dhi) T = cand; }
    double M = dlo + static_cast<double>(r.below(static_cast<std::uint64_t>(dhi - dlo) + 1));
    auto Tc = to_channel<DP>(T);
    auto Mc = to_channel<DP>(M);
    int fn = static_cast<int>(c.get("fn")) % 3;
    bool inverse = c.get("inverse") != 0, zero_mode = c.get("zero") != 0;
    if (wider && fn == 2) inverse = zero_mode; // the two combinations whose outcome always fits the narrower destination
    auto dir = inverse ? gil::threshold_direction::inverse : gil::threshold_direction::regular;
    auto mode = zero_mode ? gil::threshold_truncate_mode::zero : gil::threshold_truncate_mode::threshold;
    std::string what = std::string(name) + (fn == 0 ? " threshold_binary(T,max)" : fn == 1 ? " threshold_binary(T)" : " threshold_truncate") + (inverse ? " inverse" : " regular") +
                       (fn == 2 ? (zero_mode ? " zero" : " threshold") : "") + " T=" + std::to_string(T);
    if (fn == 0) gil::threshold_binary(src.v, dst.v, Tc, Mc, dir);
    else if (fn == 1) { gil::threshold_binary(src.v, dst.v, Tc, dir); M = dhi; }
    else gil::threshold_truncate(src.v, dst.v, Tc, mode, dir);
    auto dv = dump(dst.v);
    VCHECK(dump(src.v) == sv, what, ": source changed");
    for (std::size_t i = 0; i < sv.size(); ++i)
    {
        double px = sv[i], want;
        bool gt = px > T;
        if (fn < 2) want = inverse ? (gt ? 0 : M) : (gt ? M : 0);
        else if (!zero_mode) want = inverse ? (gt ? px : T) : (gt ? T : px);
        else want = inverse ? (gt ? 0 : px) : (gt ? px : 0);
        VCHECK(dv[i] == want, what, ": channel value ", px, " gave ", dv[i], ", the documented rule gives ", want, " (element ", i, ")");
    }
}

static void run_otsu(Case const& c)
{
    int t = static_cast<int>(c.get("type")) % 6; // the 8- and 16-bit types
    with_type(t, [&](auto PT) {
        using P = decltype(PT);
        if constexpr (!is_float_px<P>())
        {
            i64 w = c.get("w"), h = c.get("h");
            std::uint64_t seed = static_cast<std::uint64_t>(c.get("seed"));
            bool ge = c.get("guard") != 0, inverse = c.get("inverse") != 0;
            Root<P> src(w, h, ge), dst(w, h, !ge, 0x3C);
            fill_kind(src.v, static_cast<int>(c.get("kind")) % 6, seed);
            auto sv = dump(src.v);
            if (c.get("defaults") != 0 && !inverse) gil::threshold_optimal(src.v, dst.v);
            else gil::threshold_optimal(src.v, dst.v, gil::threshold_optimal_value::otsu, inverse ? gil::threshold_direction::inverse : gil::threshold_direction::regular);
            auto dv = dump(dst.v);
            VCHECK(dump(src.v) == sv, "threshold_optimal: source changed");
            double hi = hi_of<P>();
            int n = nchan<P>();
            std::string what = std::string(type_name[t]) + " threshold_optimal " + (inverse ? "inverse" : "regular") + " " + std::to_string(w) + "x" + std::to_string(h);
            for (int k = 0; k < n; ++k)
            {
                // per channel: outputs are 0 or max, and one threshold separates the two classes
                double max_of_low = -1e300, min_of_high = 1e300; // "low": sources mapped as "not greater than T"
                for (std::size_t i = static_cast<std::size_t>(k); i < sv.size(); i += static_cast<std::size_t>(n))
                {
                    VCHECK(dv[i] == 0 || dv[i] == hi, what, ": output ", dv[i], " is neither 0 nor the channel maximum");
                    bool greater = inverse ? dv[i] == 0 : dv[i] == hi;
                    if (greater) min_of_high = std::min(min_of_high, sv[i]); else max_of_low = std::max(max_of_low, sv[i]);
                }
                VCHECK(max_of_low < min_of_high, what, " channel ", k, ": not a single-threshold result: source value ", max_of_low, " is classified 'not above' while ", min_of_high, " is classified 'above'");
            }
        }
    });
}

// ------------------------------------------------------------------------------------------------ morphology
// symmetric structuring element (transposition and point reflection), odd size, centre set
static std::vector<int> make_se(int size, std::uint64_t seed)
{
    verif::SplitMix r(seed);
    std::vector<int> se(static_cast<std::size_t>(size * size), 0);
    for (int i = 0; i < size; ++i)
        for (int j = 0; j < size; ++j)
        {
            int v = static_cast<int>(r.below(3) != 0);
            int ii = size - 1 - i, jj = size - 1 - j;
            for (auto ab : {std::pair<int, int>{i, j}, {j, i}, {ii, jj}, {jj, ii}}) se[static_cast<std::size_t>(ab.first * size + ab.second)] = v;
        }
    se[static_cast<std::size_t>((size / 2) * size + size / 2)] = 1;
    return se;
}
using Grid = std::vector<double>; // w*h*nch, interleaved
static Grid ref_morph(Grid const& g, i64 w, i64 h, int n, std::vector<int> const& se, int size, bool dil)
{
    Grid out(g.size());
    int c0 = size / 2;
    for (i64 y = 0; y < h; ++y)
        for (i64 x = 0; x < w; ++x)
            for (int k = 0; k < n; ++k)
            {
                double best = g[static_cast<std::size_t>((y * w + x) * n + k)];
                for (int j = 0; j < size; ++j)
                    for (int i = 0; i < size; ++i)
                    {
                        if (!se[static_cast<std::size_t>(j * size + i)]) continue;
                        i64 qx = x + i - c0, qy = y + j - c0;
                        if (qx < 0 || qx >= w || qy < 0 || qy >= h) continue;
                        double v = g[static_cast<std::size_t>((qy * w + qx) * n + k)];
                        best = dil ? std::max(best, v) : std::min(best, v);
                    }
                out[static_cast<std::size_t>((y * w + x) * n + k)] = best;
            }
    return out;
}
static bool all_le(Grid const& a, Grid const& b) { for (std::size_t i = 0; i < a.size(); ++i) if (a[i] > b[i]) return false; return true; }

static void run_morph(Case const& c)
{
    with_type(static_cast<int>(c.get("type")) % NT, [&](auto PT) {
        using P = decltype(PT);
        i64 w = c.get("w"), h = c.get("h");
        std::uint64_t seed = static_cast<std::uint64_t>(c.get("seed"));
        bool ge = c.get("guard") != 0;
        int size = 1 + 2 * static_cast<int>(c.get("half") % 3);
        int iters = static_cast<int>(c.get("iters") % 4);
        int n = nchan<P>();
        auto se = make_se(size, seed ^ 0x99);
        bool float_kernel = c.get("fk") != 0;
        Root<P> src(w, h, ge), dst(w, h, !ge, 0x3C), dst2(w, h, ge, 0x11);
        fill_kind(src.v, static_cast<int>(c.get("kind")) % 6, seed);
        Grid g = dump(src.v);
        std::string what = std::string(type_name[static_cast<int>(c.get("type")) % NT]) + " " + std::to_string(w) + "x" + std::to_string(h) + " SE " + std::to_string(size) + "x" + std::to_string(size);
        auto call = [&](auto const& ker) {
            // dilate / erode, iterated
            Grid ed = g, ee = g;
            for (int i = 0; i < iters; ++i) { ed = ref_morph(ed, w, h, n, se, size, true); ee = ref_morph(ee, w, h, n, se, size, false); }
            gil::dilate(src.v, dst.v, ker, iters);
            Grid d = dump(dst.v);
            VCHECK(d == ed, what, ": dilate x", iters, " differs from the maximum over the in-image neighbourhood");
            gil::erode(src.v, dst2.v, ker, iters);
            Grid e = dump(dst2.v);
            VCHECK(e == ee, what, ": erode x", iters, " differs from the minimum over the in-image neighbourhood");
            VCHECK(dump(src.v) == g, what, ": source changed");
            VCHECK(all_le(e, g) && all_le(g, d), what, ": erode <= src <= dilate violated");
            // opening / closing
            gil::opening(src.v, dst.v, ker);
            Grid o = dump(dst.v);
            VCHECK(o == ref_morph(ref_morph(g, w, h, n, se, size, false), w, h, n, se, size, true), what, ": opening differs from dilate(erode(src))");
            gil::closing(src.v, dst2.v, ker);
            Grid cl = dump(dst2.v);
            VCHECK(cl == ref_morph(ref_morph(g, w, h, n, se, size, true), w, h, n, se, size, false), what, ": closing differs from erode(dilate(src))");
            VCHECK(all_le(o, g) && all_le(g, cl), what, ": opening <= src <= closing violated");
            Root<P> t1(w, h, ge, 0x22);
            gil::opening(dst.v, t1.v, ker);
            VCHECK(dump(t1.v) == o, what, ": opening is not idempotent");
            gil::closing(dst2.v, t1.v, ker);
            VCHECK(dump(t1.v) == cl, what, ": closing is not idempotent");
            // monotone: a pointwise larger image has a pointwise larger dilation and erosion
            Root<P> big(w, h, !ge);
            verif::SplitMix r(seed ^ 0x1234);
            double hi = hi_of<P>();
            for (i64 y = 0; y < h; ++y)
                for (i64 x = 0; x < w; ++x)
                {
                    auto&& p = big.v(x, y);
                    P sp = src.v(x, y);
                    for (int k = 0; k < n; ++k)
                    {
                        double v = get_ch(sp, k);
                        if (r.below(2)) v = is_float_px<P>() ? std::min(hi, static_cast<double>(static_cast<float>(v + 0.125))) : std::min(hi, v + static_cast<double>(r.below(40)));
                        set_ch(p, k, v);
                    }
                }
            gil::dilate(big.v, t1.v, ker, 1);
            gil::dilate(src.v, dst.v, ker, 1);
            VCHECK(all_le(dump(dst.v), dump(t1.v)), what, ": dilate is not monotone");
            gil::erode(big.v, t1.v, ker, 1);
            gil::erode(src.v, dst.v, ker, 1);
            VCHECK(all_le(dump(dst.v), dump(t1.v)), what, ": erode is not monotone");
        };
        std::size_t cc = static_cast<std::size_t>(size / 2);
        if (float_kernel)
        {
            std::vector<float> kv(se.begin(), se.end());
            call(gil::detail::kernel_2d<float>(kv.begin(), kv.size(), cc, cc));
        }
        else call(gil::detail::kernel_2d<int>(se.begin(), se.size(), cc, cc));
    });
}

// ------------------------------------------------------------------------------------------------ median
static void run_median(Case const& c)
{
    with_type(static_cast<int>(c.get("type")) % NT, [&](auto PT) {
        using P = decltype(PT);
        i64 w = c.get("w"), h = c.get("h");
        std::uint64_t seed = static_cast<std::uint64_t>(c.get("seed"));
        bool ge = c.get("guard") != 0;
        i64 k = 1 + 2 * (c.get("half") % 4);
        int n = nchan<P>();
        Root<P> src(w, h, ge), dst(w, h, !ge, 0x3C);
        fill_kind(src.v, static_cast<int>(c.get("kind")) % 6, seed);
        Grid g = dump(src.v);
        gil::median_filter(src.v, dst.v, static_cast<std::size_t>(k));
        Grid d = dump(dst.v);
        VCHECK(dump(src.v) == g, "median_filter: source changed");
        std::string what = std::string(type_name[static_cast<int>(c.get("type")) % NT]) + " median_filter k=" + std::to_string(k) + " on " + std::to_string(w) + "x" + std::to_string(h);
        std::vector<double> win;
        for (i64 y = 0; y < h; ++y)
            for (i64 x = 0; x < w; ++x)
                for (int ch = 0; ch < n; ++ch)
                {
                    win.clear();
                    for (i64 j = -k / 2; j <= k / 2; ++j)
                        for (i64 i = -k / 2; i <= k / 2; ++i)
                        {
                            i64 qx = std::min(std::max<i64>(x + i, 0), w - 1), qy = std::min(std::max<i64>(y + j, 0), h - 1);
                            win.push_back(g[static_cast<std::size_t>((qy * w + qx) * n + ch)]);
                        }
                    std::sort(win.begin(), win.end());
                    double want = win[win.size() / 2];
                    VCHECK(d[static_cast<std::size_t>((y * w + x) * n + ch)] == want, what, ": dst(", x, ",", y, ") channel ", ch, " = ", d[static_cast<std::size_t>((y * w + x) * n + ch)], ", the median of the replicated neighbourhood is ", want);
                }
    });
}

// ------------------------------------------------------------------------------------------------ generators
static i64 gen_dim(int max) { return verif::weighted({1, 12}) == 0 ? 0 : verif::pick(1, max); }
static Case base_case(int ntypes, int maxdim)
{
    Case c;
    c.set("type", verif::pick(0, ntypes - 1));
    c.set("w", gen_dim(maxdim)); c.set("h", gen_dim(maxdim));
    c.set("kind", verif::pick(0, 5));
    c.set("guard", verif::coin(50) ? 1 : 0);
    c.set("seed", verif::seed64());
    return c;
}
static Case gen_thresh()
{
    Case c = base_case(6, 9);
    c.set("fn", verif::pick(0, 2)); c.set("tsel", verif::pick(0, 5)); c.set("inverse", verif::coin(50) ? 1 : 0); c.set("zero", verif::coin(50) ? 1 : 0); c.set("defaults", verif::coin(25) ? 1 : 0);
    return c;
}
static Case gen_otsu()
{
    Case c = base_case(6, 12);
    c.set("inverse", verif::coin(50) ? 1 : 0); c.set("defaults", verif::coin(25) ? 1 : 0);
    return c;
}
static Case gen_morph()
{
    Case c = base_case(NT, 8);
    c.set("half", verif::pick(0, 2)); c.set("iters", verif::pick(0, 3)); c.set("fk", verif::coin(50) ? 1 : 0);
    return c;
}
static Case gen_median()
{
    Case c = base_case(NT, 8);
    c.set("half", verif::pick(0, 3));
    return c;
}

void verif_replay(Case const& c)
{
    std::string t = verif::case_target(c);
    if (t == "thresh") run_thresh(c);
    else if (t == "otsu") run_otsu(c);
    else if (t == "morph") run_morph(c);
    else if (t == "median") run_median(c);
    else throw verif::Fail("unknown sub-target " + t);
}

void verif_run(verif::Args const& a, verif::Evidence& ev)
{
    bool th = a.thorough();
    ev.rule = "pixel types gray8, gray16, gray8s, gray16s, rgb8, rgb16s, gray32f; shapes 0..9 (0 weighted in, non-square), contents {random, constant, two-level, narrow range with ties, extremes only, gradient}. "
              "thresh: threshold_binary (with and without max value) and threshold_truncate x both modes x both directions x defaulted arguments (a quarter of the gray8/gray16 cases write to a destination of the other channel width, restricted to outcomes that fit it), T from {range ends, next to the ends, a value of the image, random} -> every channel "
              "equals the documented rule. otsu: threshold_optimal on the 8/16-bit types -> outputs in {0,max}, separable by one threshold per channel, no sanitizer report. morph: symmetric random structuring elements 1/3/5 "
              "(int and float kernels), iterations 0..3 -> dilate/erode/opening/closing equal iterated max/min over the in-image neighbourhood; lattice laws on the library's output. median: k in {1,3,5,7} -> middle element of the "
              "sorted edge-replicated window. non-trivial: non-empty image (morph/median: and kernel larger than 1); distinct = all keys but the content seed.";
    int n = th ? 900000 : 20000;
    verif::rc_search(ev, a, "thresh", n, 60, gen_thresh, run_thresh, [](Case const& c) { return c.get("w") > 0 && c.get("h") > 0; }, {"type", "w", "h", "kind", "guard", "fn", "tsel", "inverse", "zero", "defaults"});
    verif::rc_search(ev, a, "otsu", n / 2, 60, gen_otsu, run_otsu, [](Case const& c) { return c.get("w") > 0 && c.get("h") > 0; }, {"type", "w", "h", "kind", "guard", "inverse", "defaults"});
    verif::rc_search(ev, a, "morph", n / 4, 60, gen_morph, run_morph, [](Case const& c) { return c.get("w") > 0 && c.get("h") > 0 && c.get("half") > 0; }, {"type", "w", "h", "kind", "guard", "half", "iters", "fk"});
    verif::rc_search(ev, a, "median", n / 2, 60, gen_median, run_median, [](Case const& c) { return c.get("w") > 0 && c.get("h") > 0 && c.get("half") > 0; }, {"type", "w", "h", "kind", "guard", "half"});
}

VERIF_MAIN(VERIF_TARGET_NAME)
