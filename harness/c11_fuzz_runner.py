"""libFuzzer campaign runner for the C11 byte-level targets (one per file format).

Called by /verif/check through the target key "runner".  The fuzz binary writes its own seed corpus (every base file variant,
LLVMFuzzerInitialize + C11_SEED_DIR) into a fresh corpus directory under the build dir, then fuzzes for a wall-clock budget.
Only crash-* and leak-* artifacts are violations; slow-unit / timeout / oom artifacts are load noise and are reported as notes.
"""
import glob, json, os, re, shutil, subprocess, time

FMT = ["bmp", "pnm", "targa", "png", "tiff", "jpeg"]


def run(ctx):
    t, binary, tier, seed, bdir = ctx["target"], ctx["binary"], ctx["tier"], ctx["seed"], ctx["bdir"]
    name = t["name"]
    budget = t.get("budget", {}).get(tier, 60 if tier == "quick" else 1200)
    corpus = os.path.join(bdir, name + ".corpus")
    arts = os.path.join(bdir, name + ".artifacts")
    tmpd = os.path.join(bdir, name + ".tmp")
    for d in (corpus, arts, tmpd):
        shutil.rmtree(d, ignore_errors=True)
        os.makedirs(d)
    stats = os.path.join(bdir, name + ".stats.json")
    env = dict(ctx["env"])
    env.update({"C11_SEED_DIR": corpus, "C11_TMP": tmpd, "C11_STATS": stats})
    logp = os.path.join(bdir, name + ".run.log")
    cmd = [binary, corpus, "-max_total_time=%d" % budget, "-seed=%d" % (seed if seed else 1), "-artifact_prefix=" + arts + "/",
           "-timeout=60", "-rss_limit_mb=4096", "-max_len=4096", "-print_final_stats=1", "-use_value_profile=1", "-reload=0"]
    # committed regression inputs (earlier findings, now fixed) run first
    viol, notes = [], []
    regdir = os.path.join(ctx["verif"], "replays", ctx["pid"], name)
    n_reg = 0
    if os.path.isdir(regdir):
        for a in sorted(os.listdir(regdir)):
            if not a.startswith("reg-"):
                continue
            n_reg += 1
            rr = subprocess.run([binary, os.path.join(regdir, a)], stdout=subprocess.PIPE, stderr=subprocess.STDOUT, env=env, cwd=bdir)
            if rr.returncode != 0:
                viol.append((os.path.join(regdir, a), "regression input fails again: " + rr.stdout.decode(errors="replace")[-1200:]))
    t0 = time.time()
    with open(logp, "w") as lf:
        try:
            r = subprocess.run(cmd, stdout=lf, stderr=subprocess.STDOUT, env=env, cwd=bdir, timeout=budget + 600)
            rc = r.returncode
        except subprocess.TimeoutExpired:
            rc = None
    wall = time.time() - t0
    txt = open(logp, errors="replace").read()
    m = re.search(r"stat::number_of_executed_units:\s*(\d+)", txt)
    execs = int(m.group(1)) if m else len(re.findall(r"^#\d+", txt, re.M))
    cov = re.findall(r"cov: (\d+) ft: (\d+)", txt)
    st = {}
    try:
        st = json.load(open(stats))
    except Exception:
        pass
    n_corpus = len(os.listdir(corpus))
    n_seeds = len(glob.glob(os.path.join(corpus, "seed_*.bin")))
    keep = os.path.join(ctx["verif"], "replays", ctx["pid"], name)
    for a in sorted(os.listdir(arts)):
        src = os.path.join(arts, a)
        if a.startswith("crash-") or a.startswith("leak-"):
            # confirm: the saved input is the reproducible unit
            fails = 0
            for _ in range(3):
                rr = subprocess.run([binary, src], stdout=subprocess.PIPE, stderr=subprocess.STDOUT, env=env, cwd=bdir)
                if rr.returncode != 0:
                    fails += 1
                    last = rr.stdout.decode(errors="replace")
            if fails == 0:
                notes.append("artifact %s did not reproduce in 3 runs (not reported)" % a)
                continue
            os.makedirs(keep, exist_ok=True)
            dst = os.path.join(keep, a)
            shutil.copy(src, dst)
            viol.append((dst, "libFuzzer %s on %s input (first byte: entry point/device, second: settings, rest: the file): %s" % (a.split("-")[0], FMT[t.get("fmt", 0)], last[-1200:])))
        else:
            notes.append("ignored load artifact " + a)
    ev = {
        "evaluations": execs,
        "distinct_nontrivial": max(0, n_corpus - n_seeds),
        "rule": "libFuzzer (coverage-guided, value profile) on %s: unit = [entry point/device byte][settings byte][file bytes]; seeds = every base variant at 2 shapes x 6 entry points (%d files); "
                "oracle as the structured engine: return or C++ exception, no ASan/UBSan report, no BOOST_ASSERT, no unit above 60 s; non-trivial = corpus units beyond the seeds (each reached new coverage)"
                % (FMT[t.get("fmt", 0)], n_seeds),
        "samples": [],
        "classes": dict({"final_cov_edges": int(cov[-1][0]) if cov else 0, "final_features": int(cov[-1][1]) if cov else 0, "corpus_units": n_corpus, "budget_s": budget, "regression_inputs_replayed": n_reg}, **{k: v for k, v in st.items() if k != "execs"}),
        "notes": notes,
        "exhaustive": False,
        "failures": [],
        "known": [],
        "excluded_known": 0,
    }
    for f in sorted(os.listdir(corpus))[:2]:
        b = open(os.path.join(corpus, f), "rb").read()[:48]
        ev["samples"].append({"unit": f, "first_bytes_hex": b.hex()})
    timed_out = rc is None
    if rc not in (0, None) and not viol:
        # libFuzzer exited non-zero without a crash/leak artifact (timeout-/oom- artifacts, or rss limit): inconclusive noise
        notes.append("libFuzzer exit code %s without crash/leak artifact (load artifact only): inconclusive" % rc)
    shutil.rmtree(tmpd, ignore_errors=True)
    return dict(name=name, rc=(1 if viol else 0), ev=ev, wall=wall, timed_out=timed_out, log=logp, crash_case=None, extra_violations=viol)
