// C13 — all ways of reading one file agree: partial, converting, scanline, read_view, any_image, any device, read_image_info.
// Engine: rapidcheck (format, file variant = corpus file | produced by GIL's writer | hand-serialised BMP/TARGA/PNM variant the writers
// cannot produce, shape, contents, recipe parameters). Oracle: differential against the library's own full read_image in the file's
// native type (the property is a consistency statement); guard-page destination views with identity tags for "nothing outside is written".
#define BOOST_GIL_IO_ENABLE_GRAY_ALPHA
#include "common/rcx.hpp"
#include "common/viewlab.hpp"
#include "common/iofiles.hpp"

#include <boost/gil/extension/dynamic_image/any_image.hpp>
#include <boost/gil/extension/io/bmp.hpp>
#include <boost/gil/extension/io/jpeg.hpp>
#include <boost/gil/extension/io/png.hpp>
#include <boost/gil/extension/io/pnm.hpp>
#include <boost/gil/extension/io/targa.hpp>
#include <boost/gil/extension/io/tiff.hpp>

#include <cctype>
#include <fstream>
#include <map>
#include <sstream>

namespace gil = boost::gil;
using namespace vl;

static std::string g_tmpdir = ".";
static long g_scanline_unsupported = 0;
static int g_ctx_variant = 0;
static bool g_known_bmp_any = false, g_known_png_any = false, g_known_png_trns_scan = false;
static long g_excluded_known = 0;
// exact inputs of the open known findings (corpus variant numbers of this harness)
static bool png_any_known_file(int v) { return v == 10 || v == 11 || v == 12 || v == 13 || v == 14 || v == 16 || v == 17; } // tbbn2c16 tbbn3p08 tbgn2c16 tbgn3p08 tbrn2c08 tm3n3p02 tp1n3p08
static bool png_trns_scan_known_file(int v) { return v == 10 || v == 12 || v == 14; }                                        // tbbn2c16 tbgn2c16 tbrn2c08
static bool g_collect = false; // triage mode (env C13_COLLECT=1): record every failing section instead of stopping at the first
static std::map<std::string, std::string> g_collected;
static std::string g_section_prefix;
template <class Fn> static void section(const char* name, Fn fn)
{
    if (!g_collect) { fn(); return; }
    try { fn(); }
    catch (std::exception const& e) { std::string k = g_section_prefix + "/" + name; if (!g_collected.count(k)) g_collected[k] = e.what(); }
}
static std::string g_corpus = "/repo/test/extension/io/images";

enum Fmt { F_BMP = 0, F_PNM, F_TARGA, F_PNG, F_TIFF, F_JPEG, F_COUNT };
static const char* fmt_name[] = {"bmp", "pnm", "targa", "png", "tiff", "jpeg"};
template <int F> struct FmtTag;
template <> struct FmtTag<F_BMP> { using type = gil::bmp_tag; };
template <> struct FmtTag<F_PNM> { using type = gil::pnm_tag; };
template <> struct FmtTag<F_TARGA> { using type = gil::targa_tag; };
template <> struct FmtTag<F_PNG> { using type = gil::png_tag; };
template <> struct FmtTag<F_TIFF> { using type = gil::tiff_tag; };
template <> struct FmtTag<F_JPEG> { using type = gil::jpeg_tag; };

using g1_t = gil::bit_aligned_image1_type<1, gil::gray_layout_t>::type;
using g2_t = gil::bit_aligned_image1_type<2, gil::gray_layout_t>::type;
using g4_t = gil::bit_aligned_image1_type<4, gil::gray_layout_t>::type;
// candidate native types, tried in this order
// colour types first: palette BMPs are read as rgba8 (their palette applied), not as gray indices
using Natives = mp::mp_list<gil::rgb8_image_t, gil::rgba8_image_t, gil::rgb16_image_t, gil::rgba16_image_t, gil::cmyk8_image_t, gil::gray_alpha8_image_t, gil::gray8_image_t, gil::gray16_image_t, g1_t, g2_t, g4_t,
                            gil::gray32f_image_t, gil::rgb32f_image_t, gil::gray_alpha16_image_t>;
static const char* native_name[] = {"rgb8", "rgba8", "rgb16", "rgba16", "cmyk8", "gray_alpha8", "gray8", "gray16", "gray1", "gray2", "gray4", "gray32f", "rgb32f", "gray_alpha16"};
using AnyImg = gil::any_image<gil::gray8_image_t, gil::gray16_image_t, gil::rgb8_image_t, gil::rgba8_image_t, gil::rgb16_image_t, gil::rgba16_image_t, gil::cmyk8_image_t>;

using namespace iofiles;

static std::string slurp(std::string const& path)
{
    std::ifstream f(path, std::ios::binary);
    std::ostringstream ss;
    ss << f.rdbuf();
    return ss.str();
}
static void spit(std::string const& path, std::string const& bytes)
{
    std::ofstream f(path, std::ios::binary);
    f.write(bytes.data(), static_cast<std::streamsize>(bytes.size()));
}
static std::string ascii_end(std::string t, std::uint64_t seed)
{
    if (seed & 2) while (!t.empty() && std::isspace(static_cast<unsigned char>(t.back()))) t.pop_back();
    return t;
}

// ------------------------------------------------------------------------------------------------ the checks for one file with native type Img
template <class V1, class V2> static void expect_equal_views(V1 const& a, V2 const& b, const char* what)
{
    VCHECK(a.dimensions() == b.dimensions(), what, ": dimensions", a.width(), a.height(), "vs", b.width(), b.height());
    for (i64 y = 0; y < a.height(); ++y)
        for (i64 x = 0; x < a.width(); ++x)
            for (int k = 0; k < nchan<typename V1::value_type>(); ++k) VCHECK(get_ch(a(x, y), k) == get_ch(b(x, y), k), what, ": pixel", x, y, "channel", k, "is", get_ch(a(x, y), k), "expected", get_ch(b(x, y), k));
}

template <int F, class Img> struct Checks
{
    using tag_t = typename FmtTag<F>::type;
    using settings_t = gil::image_read_settings<tag_t>;
    using Pix = typename Img::value_type;
    using view_t = typename Img::view_t;
    static constexpr bool bitaligned = !std::is_lvalue_reference<typename view_t::reference>::value;

    static void run(std::string const& path, std::string const& bytes, Img const& R, Case const& c, bool small)
    {
        i64 W = R.width(), H = R.height();
        auto Rv = gil::const_view(R);
        VCHECK(W >= 1 && H >= 1, "full read produced an empty image");
        section("devices", [&] { // ---- devices
        {
            Img a;
            std::istringstream is(bytes, std::ios::in | std::ios::binary);
            gil::read_image(is, a, tag_t());
            expect_equal_views(gil::const_view(a), Rv, "std::istream vs file name");
            if constexpr (F != F_TIFF)
            {
                Img b;
                FILE* f = std::fopen(path.c_str(), "rb");
                VCHECK(f != nullptr, "cannot open temp file");
                gil::read_image(f, b, tag_t()); // the device adopts f
                expect_equal_views(gil::const_view(b), Rv, "FILE* vs file name");
            }
        }
        });
        section("info", [&] { // ---- read_image_info
        {
            auto be = gil::read_image_info(path, tag_t());
            VCHECK(static_cast<i64>(be._info._width) == W && static_cast<i64>(be._info._height) == H, "read_image_info dimensions", be._info._width, be._info._height, "but read_image gives", W, H);
        }
        });
        section("subrect", [&] { // ---- sub-rectangles
        {
            std::vector<std::array<i64, 4>> rects;
            if (small && W <= 6 && H <= 6)
            {
                for (i64 x = 0; x < W; ++x) for (i64 y = 0; y < H; ++y) for (i64 w = 1; x + w <= W; ++w) for (i64 h = 1; y + h <= H; ++h) rects.push_back({x, y, w, h});
            }
            else
            {
                verif::SplitMix r(static_cast<std::uint64_t>(c.get("seed")) ^ 0x77);
                for (int i = 0; i < 8; ++i)
                {
                    i64 x = static_cast<i64>(r.below(static_cast<std::uint64_t>(W))), y = static_cast<i64>(r.below(static_cast<std::uint64_t>(H)));
                    i64 w = 1 + static_cast<i64>(r.below(static_cast<std::uint64_t>(W - x))), h = 1 + static_cast<i64>(r.below(static_cast<std::uint64_t>(H - y)));
                    rects.push_back({x, y, w, h});
                }
                rects.push_back({W - 1, H - 1, 1, 1});
                rects.push_back({0, H - 1, W, 1});
                rects.push_back({W - 1, 0, 1, H});
            }
            int which = static_cast<int>(c.get("dev") % 2);
            for (auto const& q : rects)
            {
                settings_t st(gil::point_t(q[0], q[1]), gil::point_t(q[2], q[3]));
                Img sub;
                if (which == 0) gil::read_image(path, sub, st);
                else { std::istringstream is(bytes, std::ios::in | std::ios::binary); gil::read_image(is, sub, st); }
                VCHECK(sub.width() == q[2] && sub.height() == q[3], "partial read has dimensions", sub.width(), sub.height(), "requested", q[2], q[3], "at", q[0], q[1]);
                auto crop = gil::subimage_view(Rv, q[0], q[1], q[2], q[3]);
                for (i64 y = 0; y < q[3]; ++y) for (i64 x = 0; x < q[2]; ++x) for (int k = 0; k < nchan<Pix>(); ++k)
                    VCHECK(get_ch(gil::const_view(sub)(x, y), k) == get_ch(crop(x, y), k), "partial read", q[0], q[1], q[2], q[3], "differs from the crop of the full read at", x, y, k);
            }
        }
        });
        section("read_view", [&] { // ---- read_view into guard-page memory: exact size, larger, too small
        if constexpr (!bitaligned)
        {
            for (int variant = 0; variant < 3; variant += 2) // exact size, and too small (a view LARGER than the image is not covered by the statement; the formats disagree on it)
            {
                i64 vw = variant == 1 ? W + 2 : (variant == 2 ? std::max<i64>(W - 1, 0) : W), vh = variant == 1 ? H + 1 : H;
                if (variant == 2 && W == 1) { vw = W; vh = H - 1; if (vh < 1) continue; }
                std::size_t n = static_cast<std::size_t>(vw * vh) * sizeof(Pix);
                verif::GuardBuf buf(n, (c.get("dev") & 1) != 0, 0);
                auto dv = gil::interleaved_view(vw, vh, reinterpret_cast<Pix*>(buf.data()), vw * static_cast<i64>(sizeof(Pix)));
                fill_tags(dv, 4711);
                std::vector<unsigned char> before(buf.data(), buf.data() + n);
                bool threw = false;
                try { gil::read_view(path, dv, tag_t()); }
                catch (std::exception const&) { threw = true; }
                if (variant == 2)
                {
                    VCHECK(threw, "read_view into a view smaller than the image did not throw", vw, vh, W, H);
                    VCHECK(std::memcmp(before.data(), buf.data(), n) == 0, "read_view into a too small view modified the destination before rejecting it");
                }
                else
                {
                    VCHECK(!threw, "read_view into a sufficiently large view threw", vw, vh, W, H);
                    for (i64 y = 0; y < vh; ++y) for (i64 x = 0; x < vw; ++x) for (int k = 0; k < nchan<Pix>(); ++k)
                    {
                        double want = (x < W && y < H) ? get_ch(Rv(x, y), k) : tag_for(dv(x, y), 4711, x, y, k);
                        VCHECK(get_ch(dv(x, y), k) == want, "read_view: destination pixel", x, y, k, "is", get_ch(dv(x, y), k), "expected", want, "(image", W, H, "view", vw, vh, ")");
                    }
                }
            }
        }
        });
        section("convert", [&] { // ---- converting reads
        convert_to<gil::gray8_image_t>(path, Rv, "gray8");
        convert_to<gil::rgb8_image_t>(path, Rv, "rgb8");
        convert_to<gil::rgba8_image_t>(path, Rv, "rgba8");
        convert_to<gil::rgb16_image_t>(path, Rv, "rgb16");
        });
        section("scanline", [&] { // ---- scanline reader: rows come in the format's scanline pixel type (BMP: palette -> rgba8, 15/16 bit -> rgb8, 24 -> bgr8, 32 -> bgra8;
        //      TARGA: bgr8 / bgra8; otherwise the native type); they are compared with R by colour
        if constexpr (!std::is_same<Img, gil::gray_alpha8_image_t>::value && !std::is_same<Img, gil::gray_alpha16_image_t>::value)
        {
            using reader_t = gil::scanline_reader<typename gil::get_read_device<char const*, tag_t>::type, tag_t>;
            std::unique_ptr<reader_t> rp;
            try { rp.reset(new reader_t(gil::make_scanline_reader(path.c_str(), tag_t()))); rp->begin(); }
            catch (std::ios_base::failure const&) { ++g_scanline_unsupported; return; } // clean rejection: this variant is not supported by the scanline reader
            rp.reset(new reader_t(gil::make_scanline_reader(path.c_str(), tag_t())));
            reader_t& reader = *rp;
            VCHECK(static_cast<i64>(reader._info._width) == W && static_cast<i64>(reader._info._height) == H, "scanline reader reports other dimensions");
            int scan_kind = 0; // 0 native, 1 rgba8, 2 rgb8, 3 bgr8, 4 bgra8
            if constexpr (F == F_PNG) { if (g_known_png_trns_scan && png_trns_scan_known_file(g_ctx_variant)) { ++g_excluded_known; return; } }
            if constexpr (F == F_BMP)
            {
                int bpp = static_cast<int>(reader._info._bits_per_pixel);
                scan_kind = bpp <= 8 ? 1 : bpp <= 16 ? 2 : bpp == 24 ? 3 : 4;
            }
            if constexpr (F == F_TARGA) { scan_kind = static_cast<int>(reader._info._bits_per_pixel) == 24 ? 3 : 4; }
            auto it = reader.begin();
            auto end = reader.end();
            i64 row = 0;
            for (; it != end; ++it, ++row)
            {
                VCHECK(row < H, "scanline reader yields more rows than the image has");
                auto cmp_as = [&](auto scan_pixel_tag) {
                    using SP = decltype(scan_pixel_tag);
                    if constexpr ((std::is_same<typename gil::color_space_type<SP>::type, typename gil::color_space_type<Pix>::type>::value || (std::is_same<SP, gil::rgba8_pixel_t>::value && std::is_same<Pix, gil::rgb8_pixel_t>::value)) && !bitaligned)
                    {
                        auto rowv = gil::interleaved_view(W, 1, reinterpret_cast<SP const*>(*it), static_cast<std::ptrdiff_t>(reader._scanline_length));
                        for (i64 x = 0; x < W; ++x)
                        {
                            Pix e;
                            gil::color_convert(rowv(x, 0), e); // same colour space: a channel permutation (opaque rgba8 palette rows -> rgb8: drops the alpha)
                            for (int k = 0; k < nchan<Pix>(); ++k) VCHECK(get_ch(e, k) == get_ch(Rv(x, row), k), "scanline row", row, "pixel", x, "channel", k, "differs from read_image");
                        }
                    }
                    else VCHECK(false, "scanline pixel type and native type are in different colour spaces", scan_kind);
                };
                if (scan_kind == 1) cmp_as(gil::rgba8_pixel_t());
                else if (scan_kind == 2) cmp_as(gil::rgb8_pixel_t());
                else if (scan_kind == 3) cmp_as(gil::bgr8_pixel_t());
                else if (scan_kind == 4) cmp_as(gil::bgra8_pixel_t());
                else
                {
                    using x_it = typename view_t::x_iterator;
                    view_t rowv;
                    if constexpr (bitaligned) rowv = view_t(W, 1, typename view_t::locator(x_it(*it, 0), static_cast<std::ptrdiff_t>(reader._scanline_length) * 8));
                    else rowv = gil::interleaved_view(W, 1, reinterpret_cast<Pix*>(*it), static_cast<std::ptrdiff_t>(reader._scanline_length));
                    for (i64 x = 0; x < W; ++x) for (int k = 0; k < nchan<Pix>(); ++k)
                        VCHECK(get_ch(rowv(x, 0), k) == get_ch(Rv(x, row), k), "scanline row", row, "pixel", x, "channel", k, "differs from read_image");
                }
            }
            VCHECK(row == H, "scanline reader yielded", row, "rows for an image of height", H);
        }
        });
        section("any_image", [&] { // ---- any_image
        if constexpr (mp::mp_contains<AnyImg, Img>::value)
        {
            if constexpr (F == F_BMP)
            {
                // known finding: the any_image format checker offers rgb8 for every BMP below 32 bpp, but win32 palette files are read as rgba8
                if (g_known_bmp_any && std::is_same<Img, gil::rgba8_image_t>::value && static_cast<int>(gil::read_image_info(path, tag_t())._info._bits_per_pixel) <= 8) { ++g_excluded_known; return; }
            }
            if constexpr (F == F_PNG) { if (g_known_png_any && png_any_known_file(g_ctx_variant)) { ++g_excluded_known; return; } }
            AnyImg any;
            gil::read_image(path, any, tag_t());
            VCHECK(boost::variant2::holds_alternative<Img>(any), "any_image read does not hold the file's native type", native_name[mp::mp_find<Natives, Img>::value], "but alternative", any.index());
            expect_equal_views(gil::const_view(boost::variant2::get<Img>(any)), Rv, "any_image read vs read_image");
        }
        });
    }

    template <class Dst, class RV> static void convert_to(std::string const& path, RV const& Rv, const char* name)
    {
        Dst d;
        gil::read_and_convert_image(path, d, tag_t());
        VCHECK(d.dimensions() == Rv.dimensions(), "read_and_convert_image dimensions differ", name);
        using DP = typename Dst::value_type;
        for (i64 y = 0; y < Rv.height(); ++y)
            for (i64 x = 0; x < Rv.width(); ++x)
            {
                DP e;
                gil::color_convert(Rv(x, y), e);
                for (int k = 0; k < nchan<DP>(); ++k)
                    VCHECK(get_ch(gil::const_view(d)(x, y), k) == get_ch(e, k), "read_and_convert_image<", name, "> pixel", x, y, "channel", k, "is", get_ch(gil::const_view(d)(x, y), k), "but color_convert of the native pixel gives", get_ch(e, k));
            }
        // read_and_convert_view into an exact-size image view
        Dst d2(Rv.width(), Rv.height());
        gil::read_and_convert_view(path, gil::view(d2), tag_t());
        expect_equal_views(gil::const_view(d2), gil::const_view(d), "read_and_convert_view vs read_and_convert_image");
        // converting reads of sub-rectangles (two per file, derived from its dimensions) == crop of the converting full read
        i64 W = Rv.width(), H = Rv.height();
        i64 rects[2][4] = {{W / 3, H / 3, W - W / 3 - (W > 2 ? 1 : 0), H - H / 3 - (H > 2 ? 1 : 0)}, {W > 1 ? 1 : 0, 0, std::max<i64>(1, W - 2), std::max<i64>(1, H - 1)}};
        for (auto& r : rects)
        {
            if (r[2] < 1 || r[3] < 1 || r[0] + r[2] > W || r[1] + r[3] > H) continue;
            gil::image_read_settings<tag_t> st(gil::point_t(r[0], r[1]), gil::point_t(r[2], r[3]));
            auto crop = gil::subimage_view(gil::const_view(d), r[0], r[1], r[2], r[3]);
            Dst d3;
            gil::read_and_convert_image(path, d3, st);
            expect_equal_views(gil::const_view(d3), crop, "read_and_convert_image of a sub-rectangle vs crop of the converting full read");
            Dst d4(r[2], r[3]);
            gil::read_and_convert_view(path, gil::view(d4), st);
            expect_equal_views(gil::const_view(d4), crop, "read_and_convert_view of a sub-rectangle vs crop of the converting full read");
        }
    }
};

// finds the native type by trial and runs the checks
template <int F> static void check_file(std::string const& path, Case const& c, bool small, std::string& native_out)
{
    using tag_t = typename FmtTag<F>::type;
    std::string bytes = slurp(path);
    bool done = false;
    std::string last_err;
    mp::mp_for_each<mp::mp_iota<mp::mp_size<Natives>>>([&](auto I) {
        if (done) return;
        using Img = mp::mp_at_c<Natives, decltype(I)::value>;
        if constexpr (gil::is_read_supported<typename gil::get_pixel_type<typename Img::view_t>::type, tag_t>::value)
        {
            Img R;
            try { gil::read_image(path, R, tag_t()); }
            catch (std::exception const& e) { last_err = e.what(); return; }
            done = true;
            native_out = native_name[decltype(I)::value];
            Checks<F, Img>::run(path, bytes, R, c, small);
        }
    });
    VCHECK(done, fmt_name[F], "no native type could read the generated (valid) file", path, last_err);
}

// ------------------------------------------------------------------------------------------------ file production
template <class Img, class Tag, class Info> static void write_random(std::string const& path, i64 w, i64 h, std::uint64_t seed, Tag, Info const& info)
{
    Img img(w, h);
    fill_tags(gil::view(img), seed);
    gil::write_view(path, gil::view(img), info);
}

static const char* BMP_CORPUS[] = {"g01bg.bmp", "g01bw.bmp", "g01p1.bmp", "g01wb.bmp", "g04.bmp", "g04p4.bmp", "g04rle.bmp", "g08.bmp", "g08offs.bmp", "g08os2.bmp", "g08p256.bmp", "g08p64.bmp", "g08pi256.bmp", "g08pi64.bmp",
                                   "g08res11.bmp", "g08res21.bmp", "g08res22.bmp", "g08rle.bmp", "g08s0.bmp", "g08w124.bmp", "g08w125.bmp", "g08w126.bmp", "g16bf555.bmp", "g16bf565.bmp", "g16def555.bmp", "g24.bmp", "g32bf.bmp", "g32def.bmp"};
static const char* TGA_CORPUS[] = {"24BPP_compressed.tga", "24BPP_compressed_ul_origin.tga", "24BPP_uncompressed.tga", "24BPP_uncompressed_ul_origin.tga", "32BPP_compressed.tga", "32BPP_compressed_ul_origin.tga",
                                   "32BPP_uncompressed.tga", "32BPP_uncompressed_ul_origin.tga"};
static const char* PNG_CORPUS[] = {"PngSuite/tbbn0g04.png", "PngSuite/tbbn2c16.png", "PngSuite/tbbn3p08.png", "PngSuite/tbgn2c16.png", "PngSuite/tbgn3p08.png", "PngSuite/tbrn2c08.png", "PngSuite/tbwn0g16.png", "PngSuite/tm3n3p02.png",
                                   "PngSuite/tp1n3p08.png", "test.png"};
static const char* PNM_CORPUS[] = {"p1.pnm", "p2.pnm", "p3.pnm", "p4.pnm", "p5.pnm", "p6.pnm", "rgb.pnm"};

// variant tables: number of variants per format
static int n_variants(int f)
{
    switch (f)
    {
    case F_BMP: return 12 + 28;
    case F_PNM: return 6 + 7;
    case F_TARGA: return 10 + 8;
    case F_PNG: return 9 + 10;
    case F_TIFF: return 12;
    default: return 3;
    }
}

static void run_case(Case const& c)
{
    int f = static_cast<int>(c.get("fmt"));
    int v = static_cast<int>(c.get("variant"));
    i64 w = c.get("w"), h = c.get("h");
    if (f < 0 || f >= F_COUNT || v < 0 || v >= n_variants(f) || w < 1 || h < 1 || w > 40 || h > 40) return;
    std::uint64_t seed = static_cast<std::uint64_t>(c.get("seed"));
    std::string path = g_tmpdir + "/c13_" + std::to_string(static_cast<long>(::getpid())) + "." + fmt_name[f];
    g_ctx_variant = v;
    g_section_prefix = std::string(fmt_name[f]) + "#" + std::to_string(v);
    std::string native;
    bool small = true;
    bool corpus = false;
    switch (f)
    {
    case F_BMP:
        switch (v)
        {
        case 0: write_random<gil::rgb8_image_t>(path, w, h, seed, gil::bmp_tag(), gil::image_write_info<gil::bmp_tag>()); break;
        case 1: write_random<gil::rgba8_image_t>(path, w, h, seed, gil::bmp_tag(), gil::image_write_info<gil::bmp_tag>()); break;
        case 2: spit(path, make_bmp(int(w), int(h), 24, true, false, seed)); break;
        case 3: spit(path, make_bmp(int(w), int(h), 24, false, false, seed)); break;
        case 4: spit(path, make_bmp(int(w), int(h), 8, false, false, seed)); break;
        case 5: spit(path, make_bmp(int(w), int(h), 8, true, false, seed)); break;
        case 6: spit(path, make_bmp(int(w), int(h), 4, false, false, seed)); break;
        case 7: spit(path, make_bmp(int(w), int(h), 1, false, false, seed)); break;
        case 8: spit(path, make_bmp(int(w), int(h), 8, false, true, seed)); break;
        case 9: spit(path, make_bmp(int(w), int(h), 4, false, true, seed)); break;
        case 10: spit(path, make_bmp(int(w), int(h), 32, false, false, seed)); break;
        case 11: spit(path, make_bmp(int(w), int(h), 32, true, false, seed)); break;
        default: path = g_corpus + "/bmp/" + BMP_CORPUS[v - 12]; corpus = true; break;
        }
        if (corpus) small = false;
        check_file<F_BMP>(path, c, small, native);
        break;
    case F_PNM:
        switch (v)
        {
        case 0: write_random<gil::rgb8_image_t>(path, w, h, seed, gil::pnm_tag(), gil::image_write_info<gil::pnm_tag>()); break;
        case 1: write_random<gil::gray8_image_t>(path, w, h, seed, gil::pnm_tag(), gil::image_write_info<gil::pnm_tag>()); break;
        case 2: write_random<g1_t>(path, w, h, seed, gil::pnm_tag(), gil::image_write_info<gil::pnm_tag>()); break;
        // ASCII variants: every second file ends right after its last digit (no trailing white space), which is valid PNM
        case 3: spit(path, ascii_end(make_pnm_ascii(int(w), int(h), 3, seed), seed)); break;
        case 4: spit(path, ascii_end(make_pnm_ascii(int(w), int(h), 2, seed), seed)); break;
        case 5: spit(path, ascii_end(make_pnm_ascii(int(w), int(h), 1, seed), seed)); break;
        default: path = g_corpus + "/pnm/" + PNM_CORPUS[v - 6]; corpus = true; small = false; break;
        }
        check_file<F_PNM>(path, c, small, native);
        break;
    case F_TARGA:
        switch (v)
        {
        case 0: write_random<gil::rgb8_image_t>(path, w, h, seed, gil::targa_tag(), gil::image_write_info<gil::targa_tag>()); break;
        case 1: write_random<gil::rgba8_image_t>(path, w, h, seed, gil::targa_tag(), gil::image_write_info<gil::targa_tag>()); break;
        case 2: case 3: case 4: case 5: case 6: case 7: case 8: case 9:
        { int k = v - 2; spit(path, make_tga(int(w), int(h), (k & 1) ? 32 : 24, (k & 2) != 0, (k & 4) != 0, seed)); break; }
        default: path = g_corpus + "/targa/" + TGA_CORPUS[v - 10]; corpus = true; small = false; break;
        }
        check_file<F_TARGA>(path, c, small, native);
        break;
    case F_PNG:
        switch (v)
        {
        case 0: write_random<gil::gray8_image_t>(path, w, h, seed, gil::png_tag(), gil::image_write_info<gil::png_tag>()); break;
        case 1: write_random<gil::rgb8_image_t>(path, w, h, seed, gil::png_tag(), gil::image_write_info<gil::png_tag>()); break;
        case 2: write_random<gil::rgba8_image_t>(path, w, h, seed, gil::png_tag(), gil::image_write_info<gil::png_tag>()); break;
        case 3: write_random<gil::gray16_image_t>(path, w, h, seed, gil::png_tag(), gil::image_write_info<gil::png_tag>()); break;
        case 4: write_random<gil::rgb16_image_t>(path, w, h, seed, gil::png_tag(), gil::image_write_info<gil::png_tag>()); break;
        case 5: write_random<gil::rgba16_image_t>(path, w, h, seed, gil::png_tag(), gil::image_write_info<gil::png_tag>()); break;
        case 6: write_random<g1_t>(path, w, h, seed, gil::png_tag(), gil::image_write_info<gil::png_tag>()); break;
        case 7: write_random<g2_t>(path, w, h, seed, gil::png_tag(), gil::image_write_info<gil::png_tag>()); break;
        case 8: write_random<g4_t>(path, w, h, seed, gil::png_tag(), gil::image_write_info<gil::png_tag>()); break;
        default: path = g_corpus + "/png/" + PNG_CORPUS[v - 9]; corpus = true; small = false; break;
        }
        check_file<F_PNG>(path, c, small, native);
        break;
    case F_TIFF:
    {
        gil::image_write_info<gil::tiff_tag> info;
        int comp = v % 3;
        info._compression = comp == 0 ? COMPRESSION_NONE : comp == 1 ? COMPRESSION_LZW : COMPRESSION_PACKBITS;
        info._is_tiled = (v / 3) % 2 == 1;
        info._tile_width = 16;
        info._tile_length = 16;
        int ty = v / 6;
        if (ty == 0) write_random<gil::rgb8_image_t>(path, w, h, seed, gil::tiff_tag(), info);
        else write_random<gil::gray8_image_t>(path, w, h, seed, gil::tiff_tag(), info);
        if (c.get("tiff16") && ty == 0) write_random<gil::rgb16_image_t>(path, w, h, seed, gil::tiff_tag(), info);
        check_file<F_TIFF>(path, c, small, native);
        break;
    }
    default:
    {
        gil::image_write_info<gil::jpeg_tag> info;
        info._quality = 90;
        if (v == 0) write_random<gil::gray8_image_t>(path, w, h, seed, gil::jpeg_tag(), info);
        else if (v == 1) write_random<gil::rgb8_image_t>(path, w, h, seed, gil::jpeg_tag(), info);
        else { path = g_corpus + "/jpeg/test.jpg"; corpus = true; small = false; }
        check_file<F_JPEG>(path, c, small, native);
        break;
    }
    }
    if (!corpus) std::remove(path.c_str());
}

#ifndef C13_FMT
#define C13_FMT -1
#endif

static Case gen_case(bool th)
{
    Case c;
    int f = C13_FMT >= 0 ? C13_FMT : static_cast<int>(verif::pick(0, F_COUNT - 1));
    c.set("fmt", f);
    int nv = n_variants(f);
    // generated variants are favoured over the (large) corpus files
    int ngen = f == F_BMP ? 12 : f == F_PNM ? 6 : f == F_TARGA ? 10 : f == F_PNG ? 9 : f == F_TIFF ? 12 : 2;
    int v = (verif::coin(f == F_JPEG ? 99 : (th ? 80 : 88)) || ngen == nv) ? static_cast<int>(verif::pick(0, ngen - 1)) : static_cast<int>(verif::pick(ngen, nv - 1));
    c.set("variant", v);
    bool tiny = verif::coin(65);
    i64 w = tiny ? verif::pick(1, 6) : verif::pick(1, f == F_TIFF ? 40 : 20), h = tiny ? verif::pick(1, 6) : verif::pick(1, f == F_TIFF ? 36 : 12);
    c.set("w", w);
    c.set("h", h);
    c.set("seed", verif::seed64());
    c.set("dev", verif::pick(0, 3));
    c.set("tiff16", verif::coin(25) ? 1 : 0);
    return c;
}
static bool nontrivial(Case const& c)
{
    // a file on which sub-rectangles with a non-zero corner exist, or a variant the plain writer cannot produce
    int f = static_cast<int>(c.get("fmt")), v = static_cast<int>(c.get("variant"));
    bool variant = (f == F_BMP && v >= 2) || (f == F_TARGA && v >= 2) || (f == F_PNM && v >= 3) || (f == F_PNG && v >= 9) || (f == F_TIFF && v >= 1);
    return variant || (c.get("w") >= 2 && c.get("h") >= 2);
}

void verif_replay(Case const& c) { run_case(c); }

void verif_run(verif::Args const& a, verif::Evidence& ev)
{
    bool th = a.thorough();
    g_tmpdir = a.outdir;
    ev.rule = "rapidcheck cases = (format, file variant, shape 1..6 (65%) or up to 20x12 / 40x36 for TIFF, contents seed, device choice). variants: BMP {writer rgb8/rgba8; hand-serialised 24-bit top-down/bottom-up, 8-bit palette "
              "both directions, 4-bit, 1-bit, RLE8, RLE4, 32-bit both directions; 28 bmpsuite files}, PNM {writer P6/P5/P4; hand ASCII P3/P2/P1 with comments and irregular whitespace; 7 corpus files}, TARGA {writer rgb8/rgba8; hand raw/RLE x "
              "24/32 bit x bottom/top origin; 8 corpus files}, PNG {writer gray8/16, rgb8/16, rgba8/16, gray1/2/4; 10 PngSuite files incl. palette, tRNS, 16-bit}, TIFF {rgb8/gray8/rgb16 x none/LZW/packbits x strip/tiles}, JPEG {gray8, rgb8, corpus}. "
              "per file: R = read_image in the native type (found by trial); then istream and FILE* reads == R; read_image_info dims; EVERY sub-rectangle for images <= 6x6 (else 11 incl. the far corner, last row, last column) == crop of R; "
              "read_view into exact / larger / too small views in guard-page memory (canary tags, exception + untouched for too small); read_and_convert_image/view to gray8, rgb8, rgba8, rgb16 == color_convert(R); scanline rows == R; any_image holds R. "
              "non-trivial: a variant the plain writer cannot produce, or both dims >= 2; distinct = (format, variant, shape, seed).";
    g_collect = std::getenv("C13_COLLECT") != nullptr;
    g_known_bmp_any = a.is_known("K13-bmp-palette-any");
    g_known_png_any = a.is_known("K13-png-any");
    g_known_png_trns_scan = a.is_known("K13-png-trns-scanline");
    int cases = th ? 40000 : 2500;
    verif::rc_search(ev, a, "agree", cases, 60, [&] { return gen_case(th); }, run_case, nontrivial, {"fmt", "variant", "w", "h", "seed", "dev"});
    ev.excluded_known += static_cast<std::uint64_t>(g_excluded_known);
    // pinned witnesses of the open known findings (run with the exclusion switched off)
    auto witness = [&](bool& flag, const char* id, int fmt, int variant, const char* what) {
        if (!flag) return;
        if (C13_FMT >= 0 && C13_FMT != fmt) return;
        flag = false;
        bool fails = false;
        Case c;
        c.set("fmt", fmt); c.set("variant", variant); c.set("w", 4); c.set("h", 3); c.set("seed", 5); c.set("dev", 0); c.set("tiff16", 0);
        try { run_case(c); } catch (std::exception const&) { fails = true; }
        flag = true;
        ev.known.push_back({id, fails, what});
    };
    witness(g_known_bmp_any, "K13-bmp-palette-any", F_BMP, 4, "any_image cannot read a win32 palette BMP (the format checker offers rgb8, the reader requires rgba8): 'Image types aren't compatible'");
    witness(g_known_png_any, "K13-png-any", F_PNG, 11, "any_image cannot read PNG files with a palette or a tRNS chunk (PngSuite tbbn3p08 etc.), which read_image expands to rgb8/rgba");
    witness(g_known_png_trns_scan, "K13-png-trns-scanline", F_PNG, 10, "PNG scanline reader does not expand the tRNS chunk of true-colour files (tbbn2c16): its alpha differs from read_image's");
    ev.classify("scanline_reader_rejected_variant", static_cast<std::uint64_t>(g_scanline_unsupported));
    for (auto const& kv : g_collected) ev.note("TRIAGE " + kv.first + " : " + kv.second.substr(0, 260));
}

VERIF_MAIN(VERIF_TARGET_NAME)
