// C11 — reading any byte sequence as an image terminates safely (no UB, no hang).
// Two engines over one core (run_input):
//   * default build: structure-aware mutation of small valid files (every truncation, boundary values in every header field,
//     palette / run-length / offset corruption, seeded multi-byte mutations) x every reader entry point x device kind;
//   * -DC11_LIBFUZZER: coverage-guided libFuzzer target (first two bytes select entry point / device / settings, the rest is the file).
// Oracle: the call returns normally or throws a C++ exception; any sanitizer report, guard-page fault, BOOST_ASSERT or watchdog
// timeout is a violation. Allocation requests above 64 MiB fail with bad_alloc (a clean rejection of absurd declared sizes).
#define BOOST_GIL_IO_ENABLE_GRAY_ALPHA
#include "common/verif.hpp"
#include "common/iofiles.hpp"

#include <boost/gil.hpp>
#include <boost/gil/extension/dynamic_image/any_image.hpp>
#include <boost/gil/extension/io/bmp.hpp>
#include <boost/gil/extension/io/jpeg.hpp>
#include <boost/gil/extension/io/png.hpp>
#include <boost/gil/extension/io/pnm.hpp>
#include <boost/gil/extension/io/targa.hpp>
#include <boost/gil/extension/io/tiff.hpp>

#include <cctype>
#include <fstream>
#include <new>
#include <sstream>

namespace gil = boost::gil;
using verif::Case;
using verif::i64;

#ifndef C11_FMT
#define C11_FMT 0
#endif

// ------------------------------------------------------------------------------------------------ allocation cap
static const std::size_t ALLOC_CAP = std::size_t(64) << 20;
void* operator new(std::size_t n)
{
    if (n > ALLOC_CAP) throw std::bad_alloc();
    void* p = std::malloc(n ? n : 1);
    if (!p) throw std::bad_alloc();
    return p;
}
void* operator new[](std::size_t n) { return operator new(n); }
void operator delete(void* p) noexcept { std::free(p); }
void operator delete[](void* p) noexcept { std::free(p); }
void operator delete(void* p, std::size_t) noexcept { std::free(p); }
void operator delete[](void* p, std::size_t) noexcept { std::free(p); }

enum Fmt { F_BMP = 0, F_PNM, F_TARGA, F_PNG, F_TIFF, F_JPEG, F_COUNT };
static const char* fmt_name[] = {"bmp", "pnm", "targa", "png", "tiff", "jpeg"};
template <int F> struct FmtTag;
template <> struct FmtTag<F_BMP> { using type = gil::bmp_tag; };
template <> struct FmtTag<F_PNM> { using type = gil::pnm_tag; };
template <> struct FmtTag<F_TARGA> { using type = gil::targa_tag; };
template <> struct FmtTag<F_PNG> { using type = gil::png_tag; };
template <> struct FmtTag<F_TIFF> { using type = gil::tiff_tag; };
template <> struct FmtTag<F_JPEG> { using type = gil::jpeg_tag; };
using tag_t = FmtTag<C11_FMT>::type;

using g1_t = gil::bit_aligned_image1_type<1, gil::gray_layout_t>::type;
using g4_t = gil::bit_aligned_image1_type<4, gil::gray_layout_t>::type;
using AnyImg = gil::any_image<gil::gray8_image_t, gil::gray16_image_t, gil::rgb8_image_t, gil::rgba8_image_t, gil::rgb16_image_t>;

static std::string g_tmp = ".";
static bool g_did_read = false; // the entry point exists for this format and pixel type (otherwise the case is a no-op)
static long g_returned = 0, g_threw_ios = 0, g_threw_alloc = 0, g_threw_other = 0, g_reached_rows = 0;

// ------------------------------------------------------------------------------------------------ one call
enum Entry { E_INFO = 0, E_IMG_RGB8, E_IMG_RGBA8, E_IMG_GRAY8, E_IMG_GRAY1, E_IMG_RGB16, E_CONV_IMG, E_VIEW, E_CONV_VIEW, E_SCANLINE, E_ANY, E_CONV_IMG_SUB, E_IMG_SUB, E_COUNT };
static const char* entry_name[] = {"read_image_info", "read_image<rgb8>", "read_image<rgba8>", "read_image<gray8>", "read_image<gray1>", "read_image<rgb16>", "read_and_convert_image<rgba8>", "read_view<rgb8 16x16>",
                                   "read_and_convert_view<rgba8 16x16>", "scanline loop", "read_image<any_image>", "read_and_convert_image<gray8> sub-rectangle", "read_image<rgb8> sub-rectangle"};

template <class Img, class Src> static void try_read_image(Src&& src)
{
    if constexpr (gil::is_read_supported<typename gil::get_pixel_type<typename Img::view_t>::type, tag_t>::value)
    {
        Img img;
        gil::read_image(src, img, tag_t());
        if (img.width() > 0) ++g_reached_rows;
    }
    else g_did_read = false;
}
// A caller picks a sub-rectangle after asking for the image's dimensions: rectangles reaching outside the image are a caller
// error the property does not cover (the readers' coordinate check is disabled upstream), so they are never generated.
static bool pick_rect(i64 W, i64 H, unsigned sel, i64 maxdim, gil::point_t& tl, gil::point_t& dim)
{
    if (W < 1 || H < 1 || W > 100000 || H > 100000) return false;
    i64 x = static_cast<i64>(sel & 7) % W, y = static_cast<i64>((sel >> 3) & 7) % H;
    i64 w = 1 + static_cast<i64>((sel >> 6) & 3) % (W - x), h = 1 + static_cast<i64>((sel >> 4) & 3) % (H - y);
    if (w > maxdim) w = maxdim;
    if (h > maxdim) h = maxdim;
    tl = gil::point_t(x, y);
    dim = gil::point_t(w, h);
    return true;
}
static std::string g_cur_bytes; // the input of the current call (to obtain the dimensions through a separate read_image_info)
static bool cur_dims(i64& W, i64& H)
{
    try
    {
        std::istringstream is(g_cur_bytes, std::ios::in | std::ios::binary);
        auto be = gil::read_image_info(is, tag_t());
        W = static_cast<i64>(be._info._width);
        H = static_cast<i64>(be._info._height);
        return true;
    }
    catch (std::exception const&) { return false; }
}

template <class Img, class Src> static void try_read_image_sub(Src&& src, unsigned sel)
{
    if constexpr (gil::is_read_supported<typename gil::get_pixel_type<typename Img::view_t>::type, tag_t>::value)
    {
        Img img;
        i64 W, H;
        gil::point_t tl, dim;
        if (!cur_dims(W, H) || !pick_rect(W, H, sel, 64, tl, dim)) return;
        gil::image_read_settings<tag_t> st(tl, dim);
        gil::read_image(src, img, st);
    }
    else g_did_read = false;
}

template <class Src> static void call_entry(int entry, Src&& src, unsigned sel)
{
    g_did_read = true;
    switch (entry)
    {
    case E_INFO: { auto be = gil::read_image_info(src, tag_t()); (void)be; break; }
    case E_IMG_RGB8: try_read_image<gil::rgb8_image_t>(src); break;
    case E_IMG_RGBA8: try_read_image<gil::rgba8_image_t>(src); break;
    case E_IMG_GRAY8: try_read_image<gil::gray8_image_t>(src); break;
    case E_IMG_GRAY1: try_read_image<g1_t>(src); break;
    case E_IMG_RGB16: try_read_image<gil::rgb16_image_t>(src); break;
    case E_CONV_IMG: { gil::rgba8_image_t img; gil::read_and_convert_image(src, img, tag_t()); if (img.width() > 0) ++g_reached_rows; break; }
    case E_VIEW:
    {
        if constexpr (gil::is_read_supported<gil::rgb8_pixel_t, tag_t>::value)
        {
            verif::GuardBuf buf(16 * 16 * 3, (sel & 1) != 0, 0x5a);
            auto v = gil::interleaved_view(16, 16, reinterpret_cast<gil::rgb8_pixel_t*>(buf.data()), 48);
            gil::read_view(src, v, tag_t());
        }
        else g_did_read = false;
        break;
    }
    case E_CONV_VIEW:
    {
        verif::GuardBuf buf(16 * 16 * 4, (sel & 1) != 0, 0x5a);
        auto v = gil::interleaved_view(16, 16, reinterpret_cast<gil::rgba8_pixel_t*>(buf.data()), 64);
        if (sel & 2)
        {
            i64 W, H;
            gil::point_t tl, dim;
            if (!cur_dims(W, H) || !pick_rect(W, H, sel >> 2, 16, tl, dim)) return;
            gil::image_read_settings<tag_t> st(tl, dim);
            gil::read_and_convert_view(src, gil::subimage_view(v, 0, 0, dim.x, dim.y), st);
        }
        else gil::read_and_convert_view(src, v, tag_t());
        break;
    }
    case E_ANY: { AnyImg any; gil::read_image(src, any, tag_t()); break; }
    case E_CONV_IMG_SUB:
    {
        gil::gray8_image_t img;
        i64 W, H;
        gil::point_t tl, dim;
        if (!cur_dims(W, H) || !pick_rect(W, H, sel, 64, tl, dim)) return;
        gil::image_read_settings<tag_t> st(tl, dim);
        gil::read_and_convert_image(src, img, st);
        break;
    }
    case E_IMG_SUB: try_read_image_sub<gil::rgb8_image_t>(src, sel); break;
    default: break;
    }
}

// scanline needs a named device type
static void scanline_loop(std::string const& path)
{
    using reader_t = gil::scanline_reader<gil::get_read_device<char const*, tag_t>::type, tag_t>;
    reader_t reader = gil::make_scanline_reader(path.c_str(), tag_t());
    auto it = reader.begin();
    auto end = reader.end();
    long rows = 0;
    unsigned acc = 0;
    // bounded work: a header may declare any size; the property asks for time proportional to it, the check stays within ~64 MB of rows
    std::size_t budget = std::size_t(64) << 20;
    for (; it != end && rows < 100000; ++it, ++rows)
    {
        gil::byte_t* p = *it;
        if (reader._scanline_length > 0) acc += p[0] + p[reader._scanline_length - 1];
        std::size_t cost = static_cast<std::size_t>(reader._scanline_length) + static_cast<std::size_t>(reader._info._width) * 4 + 64;
        if (cost >= budget) break;
        budget -= cost;
    }
    (void)acc;
}

static std::string tmp_path(int n) { return g_tmp + "/c11_" + fmt_name[C11_FMT] + "_" + std::to_string(static_cast<long>(::getpid())) + "_" + std::to_string(n) + ".bin"; }

// entry: which API; dev: 0 istream, 1 FILE* (fmemopen), 2 file name
static bool run_input(int entry, int dev, unsigned sel, std::string const& bytes)
{
    g_cur_bytes = bytes;
    try
    {
        if (entry == E_SCANLINE)
        {
            std::string p = tmp_path(1);
            { std::ofstream f(p, std::ios::binary); f.write(bytes.data(), static_cast<std::streamsize>(bytes.size())); }
            try { scanline_loop(p); } catch (...) { std::remove(p.c_str()); throw; }
            std::remove(p.c_str());
        }
        else if (dev == 2 || (C11_FMT == F_TIFF && dev == 1))
        {
            std::string p = tmp_path(0);
            { std::ofstream f(p, std::ios::binary); f.write(bytes.data(), static_cast<std::streamsize>(bytes.size())); }
            try { call_entry(entry, p, sel); } catch (...) { std::remove(p.c_str()); throw; }
            std::remove(p.c_str());
        }
        else if (dev == 1)
        {
            if constexpr (C11_FMT != F_TIFF)
            {
                std::string copy = bytes.empty() ? std::string(1, '\0') : bytes;
                FILE* f = ::fmemopen(&copy[0], bytes.empty() ? 0 : copy.size(), "rb");
                if (!f) return false;
                call_entry(entry, f, sel); // the device adopts and closes f
            }
        }
        else
        {
            std::istringstream is(bytes, std::ios::in | std::ios::binary);
            call_entry(entry, is, sel);
        }
        ++g_returned;
        return g_did_read;
    }
    catch (std::ios_base::failure const&) { ++g_threw_ios; }
    catch (std::bad_alloc const&) { ++g_threw_alloc; }
    catch (verif::Fail const&) { throw; } // BOOST_ASSERT inside the library
    catch (std::exception const& e) { if (g_threw_other++ < 3) std::fprintf(stderr, "note: non-ios exception: %s\n", e.what()); }
    return false;
}

// ================================================================================================= base files (valid inputs)
using namespace iofiles;

template <class Img, class Info> static std::string written(i64 w, i64 h, std::uint64_t seed, Info const& info)
{
    Img img(w, h);
    verif::SplitMix r(seed);
    auto v = gil::view(img);
    for (auto it = v.begin(); it != v.end(); ++it)
    {
        auto&& p = *it;
        boost::mp11::mp_for_each<boost::mp11::mp_iota_c<gil::num_channels<typename Img::view_t>::value>>([&](auto K) {
            using ch_t = std::decay_t<decltype(gil::at_c<decltype(K)::value>(p))>;
            using V = typename gil::channel_traits<ch_t>::value_type;
            if constexpr (std::is_arithmetic<V>::value) gil::at_c<decltype(K)::value>(p) = static_cast<V>(r.next());
            else gil::at_c<decltype(K)::value>(p) = static_cast<typename V::integer_t>(r.next() & 1);
        });
    }
    std::ostringstream os(std::ios::out | std::ios::binary);
    gil::write_view(os, v, info);
    return os.str();
}

static int n_bases()
{
    switch (C11_FMT) { case F_BMP: return 12; case F_PNM: return 6; case F_TARGA: return 10; case F_PNG: return 7; case F_TIFF: return 8; default: return 2; }
}
static std::string base_file(int variant, i64 w, i64 h, std::uint64_t seed)
{
    if constexpr (C11_FMT == F_BMP)
    {
        switch (variant)
        {
        case 0: return written<gil::rgb8_image_t>(w, h, seed, gil::image_write_info<gil::bmp_tag>());
        case 1: return written<gil::rgba8_image_t>(w, h, seed, gil::image_write_info<gil::bmp_tag>());
        case 2: return make_bmp(int(w), int(h), 24, true, false, seed);
        case 3: return make_bmp(int(w), int(h), 24, false, false, seed);
        case 4: return make_bmp(int(w), int(h), 8, false, false, seed);
        case 5: return make_bmp(int(w), int(h), 8, true, false, seed);
        case 6: return make_bmp(int(w), int(h), 4, false, false, seed);
        case 7: return make_bmp(int(w), int(h), 1, false, false, seed);
        case 8: return make_bmp(int(w), int(h), 8, false, true, seed);
        case 9: return make_bmp(int(w), int(h), 4, false, true, seed);
        case 10: return make_bmp(int(w), int(h), 32, false, false, seed);
        default: return make_bmp(int(w), int(h), 32, true, false, seed);
        }
    }
    else if constexpr (C11_FMT == F_PNM)
    {
        switch (variant)
        {
        case 0: return written<gil::rgb8_image_t>(w, h, seed, gil::image_write_info<gil::pnm_tag>());
        case 1: return written<gil::gray8_image_t>(w, h, seed, gil::image_write_info<gil::pnm_tag>());
        case 2: return written<g1_t>(w, h, seed, gil::image_write_info<gil::pnm_tag>());
        case 3: return make_pnm_ascii(int(w), int(h), 3, seed);
        case 4: return make_pnm_ascii(int(w), int(h), 2, seed);
        default: return make_pnm_ascii(int(w), int(h), 1, seed);
        }
    }
    else if constexpr (C11_FMT == F_TARGA)
    {
        if (variant == 0) return written<gil::rgb8_image_t>(w, h, seed, gil::image_write_info<gil::targa_tag>());
        if (variant == 1) return written<gil::rgba8_image_t>(w, h, seed, gil::image_write_info<gil::targa_tag>());
        int k = variant - 2;
        return make_tga(int(w), int(h), (k & 1) ? 32 : 24, (k & 2) != 0, (k & 4) != 0, seed);
    }
    else if constexpr (C11_FMT == F_PNG)
    {
        switch (variant)
        {
        case 0: return written<gil::gray8_image_t>(w, h, seed, gil::image_write_info<gil::png_tag>());
        case 1: return written<gil::rgb8_image_t>(w, h, seed, gil::image_write_info<gil::png_tag>());
        case 2: return written<gil::rgba8_image_t>(w, h, seed, gil::image_write_info<gil::png_tag>());
        case 3: return written<gil::gray16_image_t>(w, h, seed, gil::image_write_info<gil::png_tag>());
        case 4: return written<gil::rgb16_image_t>(w, h, seed, gil::image_write_info<gil::png_tag>());
        case 5: return written<g1_t>(w, h, seed, gil::image_write_info<gil::png_tag>());
        default: return written<g4_t>(w, h, seed, gil::image_write_info<gil::png_tag>());
        }
    }
    else if constexpr (C11_FMT == F_TIFF)
    {
        gil::image_write_info<gil::tiff_tag> info;
        info._compression = (variant & 1) ? COMPRESSION_LZW : COMPRESSION_NONE;
        info._is_tiled = (variant & 2) != 0;
        info._tile_width = 16;
        info._tile_length = 16;
        if (variant & 4) return written<gil::gray8_image_t>(w, h, seed, info);
        return written<gil::rgb8_image_t>(w, h, seed, info);
    }
    else
    {
        gil::image_write_info<gil::jpeg_tag> info;
        if (variant == 0) return written<gil::gray8_image_t>(w, h, seed, info);
        return written<gil::rgb8_image_t>(w, h, seed, info);
    }
}

#ifdef C11_LIBFUZZER
// ================================================================================================= libFuzzer engine
static long g_fuzz_execs = 0;
static void fuzz_stats()
{
    // counters of the campaign (normal exit only; a crash leaves the artifact instead)
    if (char const* p = std::getenv("C11_STATS"))
        if (FILE* f = std::fopen(p, "w"))
        {
            std::fprintf(f, "{\"execs\":%ld,\"returned_normally\":%ld,\"threw_ios_failure\":%ld,\"threw_bad_alloc\":%ld,\"threw_other\":%ld,\"reads_that_produced_pixels\":%ld}\n", g_fuzz_execs, g_returned, g_threw_ios,
                         g_threw_alloc, g_threw_other, g_reached_rows);
            std::fclose(f);
        }
}
// seeds: every base variant at two shapes, once per entry point family (C11_SEED_DIR is read by the campaign runner)
extern "C" int LLVMFuzzerInitialize(int*, char***)
{
    char const* d = std::getenv("C11_SEED_DIR");
    if (!d) return 0;
    int n = 0;
    for (int variant = 0; variant < n_bases(); ++variant)
        for (int shape = 0; shape < 2; ++shape)
        {
            std::string base = base_file(variant, shape ? 5 : 3, shape ? 4 : 2, 7 + static_cast<std::uint64_t>(variant));
            for (int entry : {int(E_CONV_IMG), int(E_SCANLINE), int(E_ANY), int(E_IMG_RGB8), int(E_CONV_VIEW), int(E_IMG_SUB)})
            {
                std::string unit;
                unit += static_cast<char>(entry);                       // device 0 (istream)
                unit += static_cast<char>(0x80 | ((variant * 37 + entry * 11) & 0x7f));
                unit += base;
                std::ofstream f(std::string(d) + "/seed_" + std::to_string(n++) + ".bin", std::ios::binary);
                f.write(unit.data(), static_cast<std::streamsize>(unit.size()));
            }
        }
    return 0;
}
extern "C" int LLVMFuzzerTestOneInput(const std::uint8_t* data, std::size_t size)
{
    static bool init = false;
    if (!init) { init = true; if (char const* t = std::getenv("C11_TMP")) g_tmp = t; std::atexit(fuzz_stats); }
    ++g_fuzz_execs;
    if (size < 2) return 0;
    int entry = data[0] % E_COUNT;
    int dev = (data[0] / E_COUNT) % 3;
    if (dev == 2 && (data[1] & 0x80)) dev = 0; // file-name device is slower: thin it out
    unsigned sel = data[1];
    std::string bytes(reinterpret_cast<const char*>(data + 2), size - 2);
    try { run_input(entry, dev, sel, bytes); }
    catch (verif::Fail const& f) { std::fprintf(stderr, "C11 ASSERT: %s\n", f.what()); std::abort(); }
    return 0;
}
#else
// ================================================================================================= structured mutation engine
// mutation kinds
enum Mut { M_NONE = 0, M_TRUNCATE, M_FIELD8, M_FIELD16, M_FIELD32, M_RANDOM, M_INSERT, M_DIGITS, M_COUNT };
static const std::uint32_t BOUNDARY32[] = {0u, 1u, 2u, 0x7fu, 0x80u, 0xffu, 0x100u, 0x7fffu, 0x8000u, 0xffffu, 0x10000u, 0x7fffffffu, 0x80000000u, 0xffffffffu, 0xfffffffeu, 0x00ffffffu, 0x01000000u, 3u, 4u, 8u, 15u, 16u, 24u, 32u, 33u, 64u};
constexpr int NB32 = sizeof(BOUNDARY32) / sizeof(BOUNDARY32[0]);

static std::string mutate(std::string const& base, int kind, i64 pos, i64 val, std::uint64_t seed)
{
    std::string s = base;
    if (s.empty()) return s;
    std::size_t p = static_cast<std::size_t>(pos) % s.size();
    switch (kind)
    {
    case M_TRUNCATE: s.resize(static_cast<std::size_t>(pos) % (s.size() + 1)); break;
    case M_FIELD8: s[p] = static_cast<char>(BOUNDARY32[static_cast<std::size_t>(val) % NB32] & 0xff); break;
    case M_FIELD16:
    {
        std::uint32_t v = BOUNDARY32[static_cast<std::size_t>(val) % NB32];
        s[p] = static_cast<char>(v & 0xff);
        if (p + 1 < s.size()) s[p + 1] = static_cast<char>((v >> 8) & 0xff);
        break;
    }
    case M_FIELD32:
    {
        std::uint32_t v = BOUNDARY32[static_cast<std::size_t>(val) % NB32];
        for (int i = 0; i < 4; ++i) if (p + static_cast<std::size_t>(i) < s.size()) s[p + static_cast<std::size_t>(i)] = static_cast<char>((v >> (8 * i)) & 0xff);
        break;
    }
    case M_RANDOM:
    {
        verif::SplitMix r(seed);
        int n = 1 + static_cast<int>(r.below(6));
        for (int i = 0; i < n; ++i) s[static_cast<std::size_t>(r.below(s.size()))] = static_cast<char>(r.next());
        break;
    }
    case M_INSERT:
    {
        verif::SplitMix r(seed);
        std::string ins;
        int n = 1 + static_cast<int>(r.below(8));
        for (int i = 0; i < n; ++i) ins += static_cast<char>((r.below(3) == 0) ? '9' : static_cast<char>(r.next()));
        s.insert(p, ins);
        break;
    }
    case M_DIGITS:
    {
        // a long decimal number (text formats parse numbers into fixed buffers / fixed-width integers)
        verif::SplitMix r(seed);
        std::string ins;
        int n = 1 + static_cast<int>(val % 40);
        for (int i = 0; i < n; ++i) ins += static_cast<char>('0' + r.below(10));
        s.insert(p, ins);
        break;
    }
    default: break;
    }
    return s;
}

// Truncation oracle ("a header that declares a dimension inconsistent with the data is reported as an error rather than trusted",
// "never use uninitialised bytes from a short read as data"): for the decoders GIL implements itself the base files carry no slack,
// so a strict prefix that loses at least one whole sample cannot hold the declared image and a whole-image read must throw.
//   BMP uncompressed / PNM binary / TARGA (raw and RLE): every byte of the file is needed; BMP RLE: everything but the final
//   end-of-bitmap marker; PNM ASCII: everything up to the start of the last sample token (a cut inside it leaves a shorter number).
static long g_trunc_checked = 0;
static bool truncation_must_throw(int variant, std::string const& base, std::size_t t, int entry, unsigned sel)
{
    if (t >= base.size()) return false;
    switch (entry)
    {
    case E_IMG_RGB8: case E_IMG_RGBA8: case E_IMG_GRAY8: case E_IMG_GRAY1: case E_IMG_RGB16: case E_CONV_IMG: case E_VIEW: case E_SCANLINE: case E_ANY: break;
    case E_CONV_VIEW: if (sel & 2) return false; break;
    default: return false;
    }
    if (C11_FMT == F_BMP) return (variant == 8 || variant == 9) ? t + 2 < base.size() : true;
    if (C11_FMT == F_TARGA) return true;
    if (C11_FMT == F_PNM)
    {
        if (variant < 3) return true;
        std::size_t e = base.size();
        while (e > 0 && std::isspace(static_cast<unsigned char>(base[e - 1]))) --e; // one past the last token
        std::size_t b = e;
        while (b > 0 && !std::isspace(static_cast<unsigned char>(base[b - 1]))) --b; // its first character
        return t <= b;
    }
    return false;
}

static void run_case(Case const& c)
{
    if (c.has("fmt") && c.get("fmt") != C11_FMT) return; // a case of another format's binary
    int variant = static_cast<int>(c.get("variant")) % n_bases();
    i64 w = 1 + (c.get("w") % 9), h = 1 + (c.get("h") % 9);
    std::uint64_t seed = static_cast<std::uint64_t>(c.get("seed"));
    std::string base = base_file(variant, w, h, seed);
    int mut = static_cast<int>(c.get("mut")) % M_COUNT;
    std::string bytes = mutate(base, mut, c.get("pos"), c.get("val"), seed ^ 0xabcdef);
    int entry = static_cast<int>(c.get("entry")) % E_COUNT;
    unsigned sel = static_cast<unsigned>(c.get("sel"));
    bool returned = run_input(entry, static_cast<int>(c.get("dev")) % 3, sel, bytes);
    if (mut == M_TRUNCATE && truncation_must_throw(variant, base, bytes.size(), entry, sel))
    {
        ++g_trunc_checked;
        if (returned)
            throw verif::Fail(std::string(entry_name[entry]) + " returned normally for a " + fmt_name[C11_FMT] + " file cut to " + std::to_string(bytes.size()) + " of " + std::to_string(base.size()) +
                              " bytes: the header declares more pixel data than the file holds and the reader did not report it");
    }
}

void verif_replay(Case const& c)
{
    if (c.has("dump"))
    {
        // writes the mutated bytes next to the case (for triage): not part of the check
        std::string base = base_file(static_cast<int>(c.get("variant")) % n_bases(), 1 + (c.get("w") % 9), 1 + (c.get("h") % 9), static_cast<std::uint64_t>(c.get("seed")));
        std::string bytes = mutate(base, static_cast<int>(c.get("mut")) % M_COUNT, c.get("pos"), c.get("val"), static_cast<std::uint64_t>(c.get("seed")) ^ 0xabcdef);
        std::ofstream f("c11_dump.bin", std::ios::binary);
        f.write(bytes.data(), static_cast<std::streamsize>(bytes.size()));
    }
    run_case(c);
}

void verif_run(verif::Args const& a, verif::Evidence& ev)
{
    bool th = a.thorough();
    g_tmp = a.outdir;
    ev.rule = std::string("format ") + fmt_name[C11_FMT] +
              ": base files = every variant (writer output + hand-serialised BMP/TARGA/PNM variants) at shapes 1..9; mutations: EVERY truncation length of every base file at two shapes, every byte position x 26 boundary values written as "
              "8/16/32-bit little-endian fields over the first 64 bytes (headers, palettes, run lengths) and a lattice beyond, seeded 1-6 byte random overwrites, 1-8 byte insertions and insertions of 1-40 digit decimal numbers; each mutated file through 13 entry points "
              "(read_image_info, read_image into 5 pixel types, read_and_convert_image, read_view / read_and_convert_view into a 16x16 guard-page view, scanline loop, any_image, two sub-rectangle reads) x {istream, FILE* (fmemopen), file name}. "
              "oracle: returns or throws a C++ exception; no sanitizer report, guard fault, BOOST_ASSERT, or case above the watchdog limit. non-trivial: the mutated file is accepted past the header by at least one entry point, or is a "
              "truncation / header-field mutation; distinct = (variant, shape, mutation, entry, device).";
    ev.exhaustive = false;
    std::uint64_t n = 0;
    auto one = [&](Case& c) {
        c.set("fmt", C11_FMT);
        verif::set_current_case(c);
        try { run_case(c); }
        catch (verif::Fail const& f) { ev.fail(c, f.what()); }
        catch (std::exception const& e) { ev.fail(c, std::string("unexpected: ") + e.what()); }
        ++n;
    };
    verif::SplitMix r(a.seed * 7919 + C11_FMT);
    int nb = n_bases();
    // 1. complete truncation sweep and header-field sweep
    int shapes[2][2] = {{3, 2}, {5, 4}};
    for (int variant = 0; variant < nb && ev.n_failures() < 3; ++variant)
        for (auto& sh : shapes)
        {
            std::uint64_t seed = a.seed + static_cast<std::uint64_t>(variant) * 17;
            std::string base = base_file(variant, sh[0], sh[1], seed);
            i64 len = static_cast<i64>(base.size());
            i64 tstep = (th || len <= 400) ? 1 : 1 + len / 300;
            for (i64 t = 0; t <= len; t += tstep)
                for (int entry : {int(E_INFO), int(E_IMG_RGB8), int(E_IMG_RGBA8), int(E_IMG_GRAY8), int(E_CONV_IMG), int(E_CONV_VIEW), int(E_SCANLINE), int(E_ANY)})
                {
                    if (!th && entry != E_CONV_IMG && ((t + entry) % 4) != 0) continue;
                    Case c;
                    c["@mut"];
                    c.set("variant", variant); c.set("w", sh[0] - 1); c.set("h", sh[1] - 1); c.set("seed", static_cast<i64>(seed)); c.set("mut", M_TRUNCATE); c.set("pos", t); c.set("val", 0);
                    c.set("entry", entry); c.set("dev", static_cast<i64>((t + entry) % 3)); c.set("sel", static_cast<i64>(r.next() & 0xff));
                    one(c);
                    ++ev.nontrivial_counter;
                    if ((n & 2047) == 1) ev.sample(c);
                }
            i64 hdr = std::min<i64>(len, 64);
            for (i64 pos = 0; pos < len; pos += (pos < hdr ? 1 : (th ? 3 : 11)))
                for (int width : {int(M_FIELD8), int(M_FIELD16), int(M_FIELD32)})
                    for (int bv = 0; bv < NB32; ++bv)
                    {
                        if (!th && ((pos + bv + width) % 3) != 0) continue;
                        Case c;
                        c["@mut"];
                        c.set("variant", variant); c.set("w", sh[0] - 1); c.set("h", sh[1] - 1); c.set("seed", static_cast<i64>(seed)); c.set("mut", width); c.set("pos", pos); c.set("val", bv);
                        int entry = static_cast<int>(r.below(E_COUNT));
                        if (r.below(3) == 0) entry = E_CONV_IMG;
                        c.set("entry", entry); c.set("dev", static_cast<i64>(r.below(5) == 0 ? 2 : r.below(2))); c.set("sel", static_cast<i64>(r.next() & 0xff));
                        one(c);
                        ++ev.nontrivial_counter;
                        if ((n & 4095) == 7) ev.sample(c);
                    }
            if (ev.n_failures() >= 3) break;
        }
    ev.classify("sweep_cases", n);
    // 2. seeded random / insertion mutations over all shapes
    std::uint64_t rnd_cases = th ? 400000 : 25000;
    for (std::uint64_t i = 0; i < rnd_cases && ev.n_failures() < 3; ++i)
    {
        Case c;
        c["@mut"];
        c.set("variant", static_cast<i64>(r.below(static_cast<std::uint64_t>(nb)))); c.set("w", static_cast<i64>(r.below(9))); c.set("h", static_cast<i64>(r.below(9))); c.set("seed", static_cast<i64>(r.next() & 0xffffffff));
        std::uint64_t mk = r.below(C11_FMT == F_PNM ? 6 : 16);
        c.set("mut", static_cast<i64>(mk == 0 ? M_DIGITS : mk < 5 ? M_INSERT : M_RANDOM)); c.set("pos", static_cast<i64>(r.next() & 0xffff)); c.set("val", static_cast<i64>(mk == 0 ? r.below(40) : r.below(NB32)));
        c.set("entry", static_cast<i64>(r.below(E_COUNT))); c.set("dev", static_cast<i64>(r.below(6) == 0 ? 2 : r.below(2))); c.set("sel", static_cast<i64>(r.next() & 0xff));
        long before = g_reached_rows;
        one(c);
        if (g_reached_rows > before) ++ev.nontrivial_counter;
        if ((i & 8191) == 5) ev.sample(c);
    }
    ev.eval(n);
    ev.classify("returned_normally", static_cast<std::uint64_t>(g_returned));
    ev.classify("threw_ios_failure", static_cast<std::uint64_t>(g_threw_ios));
    ev.classify("threw_bad_alloc", static_cast<std::uint64_t>(g_threw_alloc));
    ev.classify("threw_other_std_exception", static_cast<std::uint64_t>(g_threw_other));
    ev.classify("reads_that_produced_pixels", static_cast<std::uint64_t>(g_reached_rows));
    ev.classify("truncations_that_must_throw_checked", static_cast<std::uint64_t>(g_trunc_checked));
}

VERIF_MAIN(VERIF_TARGET_NAME)
#endif
