// C08 — packed and bit-aligned channel writes change exactly their own bits.
// Engine: complete enumeration (all 2^16 contents of 16-bit packed pixels x channels x values; all (first bit, width) pairs of channel
// references in 8/16/32/64-bit carriers; all (byte, bit offset) x n in [-48,48] iterator moves) plus seeded random backgrounds for
// bit-aligned references at every bit offset. Oracle: a bit-level model of the buffer (little-endian bit numbering as the reader defines it).
#include "common/verif.hpp"

#include <boost/gil.hpp>
#include <boost/mp11.hpp>

#include <thread>

namespace gil = boost::gil;
namespace mp = boost::mp11;
using verif::Case;
using verif::i64;
using u64 = std::uint64_t;

#ifndef VERIF_STRIDE
#define VERIF_STRIDE 1
#endif

// ------------------------------------------------------------------------------------------------ bit model helpers
static u64 get_bits(const unsigned char* buf, i64 bit, int nb)
{
    u64 v = 0;
    for (int j = 0; j < nb; ++j) if (buf[(bit + j) >> 3] & (1u << ((bit + j) & 7))) v |= (u64(1) << j);
    return v;
}
static void put_bits(unsigned char* buf, i64 bit, int nb, u64 v)
{
    for (int j = 0; j < nb; ++j)
    {
        unsigned char m = static_cast<unsigned char>(1u << ((bit + j) & 7));
        if (v & (u64(1) << j)) buf[(bit + j) >> 3] |= m; else buf[(bit + j) >> 3] &= static_cast<unsigned char>(~m);
    }
}
static void expect_same(const unsigned char* got, const unsigned char* want, std::size_t n, const char* what)
{
    for (std::size_t i = 0; i < n; ++i) VCHECK(got[i] == want[i], what, ": byte", i, "is", int(got[i]), "model says", int(want[i]));
}

// ------------------------------------------------------------------------------------------------ (A) packed pixels in a 16-bit field: complete
template <class Pixel, int... NB> struct PackedSpec
{
    using pixel_t = Pixel;
    static constexpr int n = sizeof...(NB);
    static const int* sizes() { static const int s[] = {NB...}; return s; }
};
template <class Spec> static void packed16_all(verif::Evidence& ev, int which, u64 c0, u64 c1)
{
    using P = typename Spec::pixel_t;
    std::uint64_t n = 0;
    Case cur;
    cur["@packed16"];
    cur.set("type", which);
    try
    {
        for (u64 content = c0; content < c1; content += VERIF_STRIDE)
        {
            int first = 0;
            mp::mp_for_each<mp::mp_iota_c<Spec::n>>([&](auto K) {
                constexpr int k = decltype(K)::value;
                int nb = Spec::sizes()[k];
                u64 maxv = (u64(1) << nb) - 1;
                for (u64 v = 0; v <= maxv; ++v)
                {
                    P p;
                    std::uint16_t raw = static_cast<std::uint16_t>(content);
                    std::memcpy(&p, &raw, 2);
                    gil::at_c<k>(p) = static_cast<typename std::decay_t<decltype(gil::at_c<k>(p))>::integer_t>(v);
                    std::uint16_t after;
                    std::memcpy(&after, &p, 2);
                    std::uint16_t mask = static_cast<std::uint16_t>(maxv << first);
                    if (static_cast<std::uint16_t>((after ^ raw) & ~mask) != 0 || static_cast<u64>((after & mask) >> first) != v || static_cast<u64>(gil::at_c<k>(p)) != v)
                    {
                        cur.set("v", {static_cast<i64>(content), k, static_cast<i64>(v)});
                        VCHECK(false, "packed pixel channel write changed other bits or did not store the value: content", content, "channel", k, "value", v, "after", after);
                    }
                    ++n;
                }
                first += nb;
            });
        }
    }
    catch (verif::Fail const& f) { ev.fail(cur, f.what()); }
    ev.eval(n);
    ev.nontrivial_counter += n;
}

// ------------------------------------------------------------------------------------------------ (B) channel references: every (first bit, width) in a carrier
template <class BF, int FB, int NB> static void static_ref_check(u64 background, u64& n)
{
    using ref_t = gil::packed_channel_reference<BF, FB, NB, true> const;
    BF mask = static_cast<BF>(((u64(1) << NB) - 1) << FB);
    u64 maxv = (u64(1) << NB) - 1;
    u64 vals[] = {0, maxv, maxv >> 1, 1, (0x5555555555555555ULL & maxv), (0xAAAAAAAAAAAAAAAAULL & maxv)};
    for (u64 v : vals)
    {
        BF data = static_cast<BF>(background);
        BF before = data;
        ref_t r(&data);
        r = static_cast<typename ref_t::integer_t>(v);
        VCHECK(static_cast<u64>(r.get()) == v, "static channel reference does not read back the value written", FB, NB, v);
        VCHECK(static_cast<BF>((data ^ before) & static_cast<BF>(~mask)) == 0, "static channel reference write changed bits outside its range", FB, NB, v, u64(before), u64(data));
        VCHECK(static_cast<u64>((data & mask) >> FB) == v, "static channel reference stored the value at the wrong place", FB, NB, v);
        {
            // the same bits through the CONST reference type (its own get()), built from the address and from the mutable reference
            using cref_t = gil::packed_channel_reference<BF, FB, NB, false> const;
            cref_t c1(&data);
            cref_t c2(r);
            VCHECK(static_cast<u64>(c1.get()) == v && static_cast<u64>(c2.get()) == v, "const static channel reference reads", u64(c1.get()), u64(c2.get()), "but the mutable one wrote", v, FB, NB);
            VCHECK(static_cast<u64>(static_cast<typename cref_t::integer_t>(c1)) == v, "const static channel reference converts to a different value", FB, NB, v);
        }
        // arithmetic on the proxy, modulo 2^bits
        BF d2 = static_cast<BF>(background);
        ref_t q(&d2);
        q = static_cast<typename ref_t::integer_t>(v);
        ++q; VCHECK(static_cast<u64>(q.get()) == ((v + 1) & maxv), "++ on a channel proxy is not modulo 2^bits", FB, NB, v);
        --q; --q; VCHECK(static_cast<u64>(q.get()) == ((v - 1) & maxv), "-- on a channel proxy is not modulo 2^bits", FB, NB, v);
        q += 3; VCHECK(static_cast<u64>(q.get()) == ((v + 2) & maxv), "+= on a channel proxy is not modulo 2^bits", FB, NB, v);
        q -= 5; VCHECK(static_cast<u64>(q.get()) == ((v - 3) & maxv), "-= on a channel proxy is not modulo 2^bits", FB, NB, v);
        VCHECK(static_cast<BF>((d2 ^ static_cast<BF>(background)) & static_cast<BF>(~mask)) == 0, "arithmetic on a channel proxy changed bits outside its range", FB, NB, v);
        ++n;
    }
}
template <class BF, int NB> static void dynamic_ref_check(u64 background, unsigned fb, u64& n)
{
    using ref_t = gil::packed_dynamic_channel_reference<BF, NB, true> const;
    BF mask = static_cast<BF>(((u64(1) << NB) - 1) << fb);
    u64 maxv = (u64(1) << NB) - 1;
    u64 vals[] = {0, maxv, maxv >> 1, 1, (0x5555555555555555ULL & maxv)};
    for (u64 v : vals)
    {
        // the dynamic reference is placed in a window so that over-wide accesses would be seen too
        unsigned char win[24];
        for (int i = 0; i < 24; ++i) win[i] = static_cast<unsigned char>((background >> ((i % 8) * 8)) ^ (i * 37));
        unsigned char model[24];
        std::memcpy(model, win, 24);
        ref_t r(win + 8, fb);
        r = static_cast<typename ref_t::integer_t>(v);
        put_bits(model, 64 + fb, NB, v);
        expect_same(win, model, 24, "dynamic channel reference write");
        VCHECK(static_cast<u64>(r.get()) == v, "dynamic channel reference does not read back", fb, NB, v);
        {
            // the same bits through the CONST run-time-offset reference (its own get()), from the address and from the mutable reference
            using cref_t = gil::packed_dynamic_channel_reference<BF, NB, false> const;
            cref_t c1(win + 8, fb);
            cref_t c2(r);
            VCHECK(static_cast<u64>(c1.get()) == v && static_cast<u64>(c2.get()) == v, "const dynamic channel reference reads", u64(c1.get()), u64(c2.get()), "but the mutable one wrote", v, "first bit", fb, "bits", NB);
            VCHECK(static_cast<u64>(static_cast<typename cref_t::integer_t>(c1)) == v, "const dynamic channel reference converts to a different value", fb, NB, v);
            VCHECK(c1.first_bit() == fb && c2.first_bit() == fb, "const dynamic channel reference reports a different first bit");
            expect_same(win, model, 24, "reading through a const dynamic channel reference");
        }
        ref_t other(win + 8, fb);
        r = other; // self-typed assignment keeps the value
        expect_same(win, model, 24, "dynamic channel reference self assignment");
        (void)mask;
        ++n;
    }
}
template <class BF> static void refs_for_carrier(verif::Evidence& ev, int carrier, u64 seed)
{
    constexpr int BITS = sizeof(BF) * 8;
    u64 n = 0;
    Case cur;
    cur["@refs"];
    cur.set("carrier", carrier);
    try
    {
        verif::SplitMix r(seed + carrier);
        int rounds = 24 / VERIF_STRIDE + 2;
        for (int round = 0; round < rounds; ++round)
        {
            u64 bg = round == 0 ? 0 : round == 1 ? ~u64(0) : r.next();
            cur.set("bg", static_cast<i64>(bg & 0x7fffffffffffffffULL));
            mp::mp_for_each<mp::mp_iota_c<BITS>>([&](auto FBc) {
                constexpr int FB = decltype(FBc)::value;
                mp::mp_for_each<mp::mp_iota_c<16>>([&](auto NBc) {
                    constexpr int NB = decltype(NBc)::value + 1;
                    if constexpr (FB + NB <= BITS && (BITS <= 16 ? (NB <= 8 || (NB % 2 == 0)) : (NB <= 8 && (FB % 3 == 0 || FB + NB == BITS)))) static_ref_check<BF, FB, NB>(bg, n);
                });
            });
            mp::mp_for_each<mp::mp_iota_c<16>>([&](auto NBc) {
                constexpr int NB = decltype(NBc)::value + 1;
                for (unsigned fb = 0; fb < 8; ++fb)
                    if (static_cast<int>(fb) + NB <= BITS) dynamic_ref_check<BF, NB>(bg, fb, n);
            });
        }
    }
    catch (verif::Fail const& f) { ev.fail(cur, f.what()); }
    ev.eval(n);
    ev.nontrivial_counter += n;
    ev.classify("refs_carrier_bits_" + std::to_string(BITS), n);
}

// ------------------------------------------------------------------------------------------------ (C) bit-aligned pixel references and iterators
using BA = mp::mp_list<gil::bit_aligned_image1_type<1, gil::gray_layout_t>::type, gil::bit_aligned_image1_type<2, gil::gray_layout_t>::type, gil::bit_aligned_image1_type<4, gil::gray_layout_t>::type,
                       gil::bit_aligned_image3_type<2, 2, 2, gil::rgb_layout_t>::type, gil::bit_aligned_image3_type<5, 6, 5, gil::rgb_layout_t>::type, gil::bit_aligned_image3_type<1, 2, 1, gil::rgb_layout_t>::type,
                       gil::bit_aligned_image3_type<2, 3, 2, gil::bgr_layout_t>::type, gil::bit_aligned_image4_type<8, 8, 8, 8, gil::rgba_layout_t>::type, gil::bit_aligned_image4_type<10, 10, 10, 10, gil::rgba_layout_t>::type,
                       gil::bit_aligned_image3_type<3, 3, 2, gil::rgb_layout_t>::type, gil::bit_aligned_image1_type<7, gil::gray_layout_t>::type, gil::bit_aligned_image2_type<3, 5, gil::devicen_layout_t<2>>::type>;
static const std::vector<std::vector<int>> BA_SIZES = {{1}, {2}, {4}, {2, 2, 2}, {5, 6, 5}, {1, 2, 1}, {2, 3, 2}, {8, 8, 8, 8}, {10, 10, 10, 10}, {3, 3, 2}, {7}, {3, 5}};
constexpr int NBA = static_cast<int>(mp::mp_size<BA>::value);

template <class Img> struct BAOps
{
    using view_t = typename Img::view_t;
    using ref_t = typename view_t::reference;
    using value_t = typename view_t::value_type;
    using it_t = typename view_t::x_iterator;
    static constexpr int NC = static_cast<int>(gil::num_channels<view_t>::value);

    static std::vector<u64> read(ref_t const& r)
    {
        std::vector<u64> v;
        mp::mp_for_each<mp::mp_iota_c<NC>>([&](auto K) { v.push_back(static_cast<u64>(gil::at_c<decltype(K)::value>(r))); });
        return v;
    }
    template <class PixLike> static void write(PixLike&& p, std::vector<u64> const& v)
    {
        mp::mp_for_each<mp::mp_iota_c<NC>>([&](auto K) {
            constexpr int k = decltype(K)::value;
            using ch_t = std::decay_t<decltype(gil::at_c<k>(p))>;
            gil::at_c<k>(p) = static_cast<typename ch_t::integer_t>(v[k]);
        });
    }

    // one randomised scenario; window of WIN bytes inside guard-page memory, pixel at (byte off, bit offset)
    static void scenario(int type, u64 seed, i64 round, bool flush_end)
    {
        std::vector<int> const& sz = BA_SIZES[static_cast<std::size_t>(type)];
        int bits = 0;
        for (int s : sz) bits += s;
        verif::SplitMix r(verif::mix64(seed, static_cast<u64>(round) * 1315423911ULL + type));
        int npix = 1 + static_cast<int>(r.below(9));
        int offset = static_cast<int>(r.below(8));
        // exactly the bytes the pixels occupy
        std::size_t nbytes = static_cast<std::size_t>((offset + bits * npix + 7) / 8);
        verif::GuardBuf buf(nbytes, flush_end, 0);
        int bgkind = static_cast<int>(r.below(4));
        for (std::size_t i = 0; i < nbytes; ++i) buf.data()[i] = bgkind == 0 ? 0 : bgkind == 1 ? 0xff : static_cast<unsigned char>(r.next());
        std::vector<unsigned char> model(buf.data(), buf.data() + nbytes);
        it_t begin(buf.data(), offset);
        auto pix_bit = [&](int i) { return static_cast<i64>(offset) + static_cast<i64>(bits) * i; };
        auto ch_first = [&](int k) { int f = 0; for (int j = 0; j < k; ++j) f += sz[static_cast<std::size_t>(j)]; return f; };
        auto rnd_val = [&](int k) { return r.next() & ((u64(1) << sz[static_cast<std::size_t>(k)]) - 1); };
        int op = static_cast<int>(r.below(9));
        int i = static_cast<int>(r.below(static_cast<u64>(npix)));
        ref_t p = begin[i];
        switch (op)
        {
        case 0: // one channel
        {
            int k = static_cast<int>(r.below(static_cast<u64>(NC)));
            u64 v = rnd_val(k);
            std::vector<u64> cur = read(p);
            cur[static_cast<std::size_t>(k)] = v;
            mp::mp_with_index<NC>(static_cast<std::size_t>(k), [&](auto K) {
                using ch_t = std::decay_t<decltype(gil::at_c<decltype(K)::value>(p))>;
                gil::at_c<decltype(K)::value>(p) = static_cast<typename ch_t::integer_t>(v);
            });
            put_bits(model.data(), pix_bit(i) + ch_first(k), sz[static_cast<std::size_t>(k)], v);
            expect_same(buf.data(), model.data(), nbytes, "bit-aligned channel assignment");
            VCHECK(read(p) == cur, "bit-aligned channel assignment does not read back");
            break;
        }
        case 1: // whole pixel from a value
        {
            value_t val;
            std::vector<u64> v;
            for (int k = 0; k < NC; ++k) v.push_back(rnd_val(k));
            write(val, v);
            p = val;
            for (int k = 0; k < NC; ++k) put_bits(model.data(), pix_bit(i) + ch_first(k), sz[static_cast<std::size_t>(k)], v[static_cast<std::size_t>(k)]);
            expect_same(buf.data(), model.data(), nbytes, "bit-aligned pixel assignment from a value");
            VCHECK(read(p) == v, "bit-aligned pixel assignment does not read back");
            VCHECK(p == val, "pixel reference != value just assigned");
            break;
        }
        case 2: // whole pixel from another reference
        {
            int j = static_cast<int>(r.below(static_cast<u64>(npix)));
            ref_t q = begin[j];
            std::vector<u64> v = read(q);
            p = q;
            for (int k = 0; k < NC; ++k) put_bits(model.data(), pix_bit(i) + ch_first(k), sz[static_cast<std::size_t>(k)], v[static_cast<std::size_t>(k)]);
            expect_same(buf.data(), model.data(), nbytes, "bit-aligned pixel assignment from another reference");
            break;
        }
        case 3: // swap of two references
        {
            int j = static_cast<int>(r.below(static_cast<u64>(npix)));
            ref_t q = begin[j];
            std::vector<u64> vi = read(p), vj = read(q);
            using std::swap;
            swap(p, q);
            for (int k = 0; k < NC; ++k)
            {
                put_bits(model.data(), pix_bit(i) + ch_first(k), sz[static_cast<std::size_t>(k)], vj[static_cast<std::size_t>(k)]);
                put_bits(model.data(), pix_bit(j) + ch_first(k), sz[static_cast<std::size_t>(k)], vi[static_cast<std::size_t>(k)]);
            }
            if (i == j) for (int k = 0; k < NC; ++k) put_bits(model.data(), pix_bit(i) + ch_first(k), sz[static_cast<std::size_t>(k)], vi[static_cast<std::size_t>(k)]);
            expect_same(buf.data(), model.data(), nbytes, "swap of two bit-aligned references");
            break;
        }
        case 4: // swap reference with value
        {
            value_t val;
            std::vector<u64> v;
            for (int k = 0; k < NC; ++k) v.push_back(rnd_val(k));
            write(val, v);
            std::vector<u64> old = read(p);
            using std::swap;
            swap(p, val);
            for (int k = 0; k < NC; ++k) put_bits(model.data(), pix_bit(i) + ch_first(k), sz[static_cast<std::size_t>(k)], v[static_cast<std::size_t>(k)]);
            expect_same(buf.data(), model.data(), nbytes, "swap of a bit-aligned reference with a value");
            value_t expect_old;
            write(expect_old, old);
            VCHECK(val == expect_old, "swap(reference, value) did not give the old pixel to the value");
            break;
        }
        case 5: // arithmetic on a channel proxy
        {
            int k = static_cast<int>(r.below(static_cast<u64>(NC)));
            int nb = sz[static_cast<std::size_t>(k)];
            u64 maxv = (u64(1) << nb) - 1;
            u64 cur = read(p)[static_cast<std::size_t>(k)];
            int which = static_cast<int>(r.below(4));
            u64 expect = 0;
            mp::mp_with_index<NC>(static_cast<std::size_t>(k), [&](auto K) {
                auto ch = gil::at_c<decltype(K)::value>(p);
                if (which == 0) { ++ch; expect = (cur + 1) & maxv; }
                else if (which == 1) { --ch; expect = (cur - 1) & maxv; }
                else if (which == 2) { ch += 5; expect = (cur + 5) & maxv; }
                else { ch -= 3; expect = (cur - 3) & maxv; }
            });
            put_bits(model.data(), pix_bit(i) + ch_first(k), nb, expect);
            expect_same(buf.data(), model.data(), nbytes, "arithmetic on a bit-aligned channel proxy (modulo 2^bits)");
            break;
        }
        case 6: // std::fill over a sub-range
        {
            int a = static_cast<int>(r.below(static_cast<u64>(npix + 1))), b = static_cast<int>(r.below(static_cast<u64>(npix + 1)));
            if (a > b) std::swap(a, b);
            value_t val;
            std::vector<u64> v;
            for (int k = 0; k < NC; ++k) v.push_back(rnd_val(k));
            write(val, v);
            std::fill(begin + a, begin + b, val);
            for (int t = a; t < b; ++t) for (int k = 0; k < NC; ++k) put_bits(model.data(), pix_bit(t) + ch_first(k), sz[static_cast<std::size_t>(k)], v[static_cast<std::size_t>(k)]);
            expect_same(buf.data(), model.data(), nbytes, "std::fill through bit-aligned iterators");
            break;
        }
        case 7: // std::copy from a second buffer (different bit offset) into a sub-range
        {
            int a = static_cast<int>(r.below(static_cast<u64>(npix + 1))), b = static_cast<int>(r.below(static_cast<u64>(npix + 1)));
            if (a > b) std::swap(a, b);
            int off2 = static_cast<int>(r.below(8));
            std::size_t n2 = static_cast<std::size_t>((off2 + bits * (b - a) + 7) / 8);
            verif::GuardBuf src(n2 ? n2 : 1, !flush_end, 0);
            for (std::size_t t = 0; t < n2; ++t) src.data()[t] = static_cast<unsigned char>(r.next());
            it_t sb(src.data(), off2);
            std::copy(sb, sb + (b - a), begin + a);
            for (int t = 0; t < b - a; ++t)
                for (int k = 0; k < NC; ++k)
                    put_bits(model.data(), pix_bit(a + t) + ch_first(k), sz[static_cast<std::size_t>(k)], get_bits(src.data(), off2 + static_cast<i64>(bits) * t + ch_first(k), sz[static_cast<std::size_t>(k)]));
            expect_same(buf.data(), model.data(), nbytes, "std::copy through bit-aligned iterators");
            break;
        }
        default: // copy_pixels between 1-row views at different offsets
        {
            int off2 = static_cast<int>(r.below(8));
            std::size_t n2 = static_cast<std::size_t>((off2 + bits * npix + 7) / 8);
            verif::GuardBuf src(n2, !flush_end, 0);
            for (std::size_t t = 0; t < n2; ++t) src.data()[t] = static_cast<unsigned char>(r.next());
            using loc_t = typename view_t::locator;
            view_t sv(npix, 1, loc_t(it_t(src.data(), off2), static_cast<std::ptrdiff_t>(n2 * 8)));
            view_t dv(npix, 1, loc_t(begin, static_cast<std::ptrdiff_t>(nbytes * 8)));
            gil::copy_pixels(sv, dv);
            for (int t = 0; t < npix; ++t)
                for (int k = 0; k < NC; ++k)
                    put_bits(model.data(), pix_bit(t) + ch_first(k), sz[static_cast<std::size_t>(k)], get_bits(src.data(), off2 + static_cast<i64>(bits) * t + ch_first(k), sz[static_cast<std::size_t>(k)]));
            expect_same(buf.data(), model.data(), nbytes, "copy_pixels between bit-aligned views at different bit offsets");
            VCHECK(gil::equal_pixels(sv, dv), "equal_pixels false after copy_pixels (bit-aligned)");
            break;
        }
        }
        // after any operation: every channel of every pixel, read through the mutable reference, through the CONST reference
        // (const iterator built from the address, and converted from the mutable iterator) and through a copied value, is the
        // model's bit field -- channels that straddle a byte boundary included
        {
            using cview_t = typename view_t::const_t;
            using cit_t = typename cview_t::x_iterator;
            using cref_t = typename cview_t::reference;
            cit_t cbegin(static_cast<unsigned char const*>(buf.data()), offset);
            cit_t cconv(begin);
            for (int t = 0; t < npix; ++t)
            {
                ref_t mr = begin[t];
                cref_t cr = cbegin[t];
                cref_t cr2 = cconv[t];
                cref_t cr3(mr);
                value_t val(cr);
                mp::mp_for_each<mp::mp_iota_c<NC>>([&](auto K) {
                    constexpr int k = decltype(K)::value;
                    u64 want = get_bits(model.data(), pix_bit(t) + ch_first(k), sz[static_cast<std::size_t>(k)]);
                    u64 m = static_cast<u64>(gil::at_c<k>(mr)), c1 = static_cast<u64>(gil::at_c<k>(cr)), c2 = static_cast<u64>(gil::at_c<k>(cr2)), c3 = static_cast<u64>(gil::at_c<k>(cr3)), vv = static_cast<u64>(gil::at_c<k>(val));
                    VCHECK(m == want, "bit-aligned channel read through the mutable reference differs from the stored bits", t, k, m, want);
                    VCHECK(c1 == want && c2 == want && c3 == want, "bit-aligned channel read through the const reference differs from the stored bits: pixel", t, "channel", k, "const reads", c1, c2, c3, "stored", want);
                    VCHECK(vv == want, "value copied from a const bit-aligned reference differs from the stored bits", t, k, vv, want);
                });
                VCHECK(cr == mr && !(cr != mr), "const and mutable bit-aligned references to the same pixel compare unequal", t);
            }
            expect_same(buf.data(), model.data(), nbytes, "reading through const bit-aligned references");
        }
    }

    // iterator advance / distance: every (byte, offset) start, every n in the window
    static void iterator_moves(int type, u64& n)
    {
        std::vector<int> const& sz = BA_SIZES[static_cast<std::size_t>(type)];
        int bits = 0;
        for (int s : sz) bits += s;
        static unsigned char arena[4096];
        unsigned char* mid = arena + 2048;
        for (int byte = 0; byte < 3; ++byte)
            for (int off = 0; off < 8; ++off)
            {
                it_t it(mid + byte, off);
                i64 pos = (static_cast<i64>(byte) * 8 + off);
                for (i64 d = -48; d <= 48; ++d)
                {
                    it_t jt = it + d;
                    i64 want = pos + d * bits;
                    i64 wb = want >= 0 ? want / 8 : -((-want + 7) / 8), wo = want - wb * 8;
                    auto br = (*jt).bit_range();
                    VCHECK(br.current_byte() == mid + wb && br.bit_offset() == wo, "bit-aligned iterator advanced to the wrong (byte, bit)", type, byte, off, d, static_cast<i64>(br.current_byte() - mid), br.bit_offset(), wb, wo);
                    VCHECK(br.bit_offset() >= 0 && br.bit_offset() < 8, "bit offset outside 0..7", br.bit_offset());
                    VCHECK(jt - it == d, "distance between bit-aligned iterators is not the number of pixels", type, byte, off, d, static_cast<i64>(jt - it));
                    it_t back = jt + (-d);
                    VCHECK(back == it, "advancing by n and then by -n does not return to the same position", type, byte, off, d);
                    it_t kt = jt;
                    kt -= d;
                    VCHECK(kt == it, "-= n after + n does not return", type, byte, off, d);
                    if (d != 0) VCHECK((it < jt) == (d > 0) && (jt < it) == (d < 0), "ordering of bit-aligned iterators disagrees with the distance", type, byte, off, d);
                    it_t s = it;
                    if (d >= 0) for (i64 t = 0; t < d; ++t) ++s; else for (i64 t = 0; t < -d; ++t) --s;
                    VCHECK(s == jt, "repeated ++/-- differs from + n", type, byte, off, d);
                    ++n;
                }
            }
    }
};

// ------------------------------------------------------------------------------------------------
using P565 = gil::packed_pixel_type<std::uint16_t, mp::mp_list_c<unsigned, 5, 6, 5>, gil::rgb_layout_t>::type;
using P556 = gil::packed_pixel_type<std::uint16_t, mp::mp_list_c<unsigned, 5, 5, 6>, gil::bgr_layout_t>::type;
using P4444 = gil::packed_pixel_type<std::uint16_t, mp::mp_list_c<unsigned, 4, 4, 4, 4>, gil::rgba_layout_t>::type;
using P1555 = gil::packed_pixel_type<std::uint16_t, mp::mp_list_c<unsigned, 1, 5, 5, 5>, gil::argb_layout_t>::type;

static void run_scenarios(verif::Evidence& ev, int type, u64 seed, i64 r0, i64 r1)
{
    Case cur;
    cur["@ba"];
    cur.set("type", type);
    cur.set("seed", static_cast<i64>(seed & 0x7fffffffffffULL));
    u64 n = 0;
    try
    {
        mp::mp_with_index<NBA>(static_cast<std::size_t>(type), [&](auto T) {
            using Img = mp::mp_at_c<BA, decltype(T)::value>;
            for (i64 round = r0; round < r1; ++round)
            {
                cur.set("round", round);
                BAOps<Img>::scenario(type, seed, round, (round & 1) != 0);
                ++n;
            }
        });
    }
    catch (verif::Fail const& f) { ev.fail(cur, f.what()); }
    ev.eval(n);
    ev.nontrivial_counter += n;
}

void verif_replay(Case const& c)
{
    verif::Evidence ev;
    if (c.has("@ba"))
    {
        int type = static_cast<int>(c.get("type"));
        if (type < 0 || type >= NBA) throw verif::Fail("bad type");
        i64 round = c.get("round");
        mp::mp_with_index<NBA>(static_cast<std::size_t>(type), [&](auto T) {
            using Img = mp::mp_at_c<BA, decltype(T)::value>;
            BAOps<Img>::scenario(type, static_cast<u64>(c.get("seed")), round, (round & 1) != 0);
        });
        return;
    }
    if (c.has("@iter"))
    {
        int type = static_cast<int>(c.get("type"));
        u64 n = 0;
        mp::mp_with_index<NBA>(static_cast<std::size_t>(type), [&](auto T) { BAOps<mp::mp_at_c<BA, decltype(T)::value>>::iterator_moves(type, n); });
        return;
    }
    if (c.has("@packed16"))
    {
        i64 content = c.get("v", 0, 0);
        switch (c.get("type"))
        {
        case 0: packed16_all<PackedSpec<P565, 5, 6, 5>>(ev, 0, content, content + 1); break;
        case 1: packed16_all<PackedSpec<P556, 5, 5, 6>>(ev, 1, content, content + 1); break;
        case 2: packed16_all<PackedSpec<P4444, 4, 4, 4, 4>>(ev, 2, content, content + 1); break;
        default: packed16_all<PackedSpec<P1555, 1, 5, 5, 5>>(ev, 3, content, content + 1); break;
        }
    }
    else if (c.has("@refs"))
    {
        switch (c.get("carrier"))
        {
        case 0: refs_for_carrier<std::uint8_t>(ev, 0, 1); break;
        case 1: refs_for_carrier<std::uint16_t>(ev, 1, 1); break;
        case 2: refs_for_carrier<std::uint32_t>(ev, 2, 1); break;
        default: refs_for_carrier<std::uint64_t>(ev, 3, 1); break;
        }
    }
    if (ev.n_failures()) throw verif::Fail(ev.failures[0].second);
}

void verif_run(verif::Args const& a, verif::Evidence& ev)
{
    bool th = a.thorough();
    ev.rule = "A: all 2^16 contents x every channel x every value for packed pixels 565 rgb, 556 bgr, 4444 rgba, 1555 argb in a 16-bit field (complete); B: static channel references for every (first bit, width<=8 and even widths to 16) "
              "in 8/16/32/64-bit carriers and dynamic references for every width 1..16 x first bit 0..7, 6 values x 26 backgrounds incl. all-0 / all-1, inside a window whose neighbours are compared; proxies' ++ -- += -= modulo 2^bits; "
              "C: 12 bit-aligned pixel types (1..40 bits/pixel) at every start bit offset 0..7 in guard-page memory of exactly the occupied bytes with random / all-0 / all-1 backgrounds: channel and pixel assignment, swap, proxy "
              "arithmetic, std::fill, std::copy and copy_pixels across different bit offsets, each compared bit-for-bit with a model buffer; D: iterator + n / - n / distance / ordering / repeated ++ for every (byte, offset) start and "
              "n in [-48,48]. stride " + std::to_string(VERIF_STRIDE) + ". non-trivial: every case (each writes into a non-uniform neighbourhood or moves across a byte boundary); distinct = the enumerated input / (type, seed, round).";
    ev.exhaustive = false;
    std::vector<std::function<void()>> jobs;
    for (int ch = 0; ch < 16; ++ch)
    {
        u64 c0 = 4096ULL * ch, c1 = 4096ULL * (ch + 1);
        jobs.push_back([=, &ev] { packed16_all<PackedSpec<P565, 5, 6, 5>>(ev, 0, c0, c1); });
        jobs.push_back([=, &ev] { packed16_all<PackedSpec<P556, 5, 5, 6>>(ev, 1, c0, c1); });
        jobs.push_back([=, &ev] { packed16_all<PackedSpec<P4444, 4, 4, 4, 4>>(ev, 2, c0, c1); });
        jobs.push_back([=, &ev] { packed16_all<PackedSpec<P1555, 1, 5, 5, 5>>(ev, 3, c0, c1); });
    }
    u64 seed = a.seed;
    jobs.push_back([&ev, seed] { refs_for_carrier<std::uint8_t>(ev, 0, seed); });
    jobs.push_back([&ev, seed] { refs_for_carrier<std::uint16_t>(ev, 1, seed); });
    jobs.push_back([&ev, seed] { refs_for_carrier<std::uint32_t>(ev, 2, seed); });
    jobs.push_back([&ev, seed] { refs_for_carrier<std::uint64_t>(ev, 3, seed); });
    i64 rounds = (th ? 400000 : 20000) / VERIF_STRIDE;
    for (int type = 0; type < NBA; ++type)
        for (int part = 0; part < 4; ++part)
            jobs.push_back([=, &ev] { run_scenarios(ev, type, seed, rounds * part / 4, rounds * (part + 1) / 4); });
    for (int type = 0; type < NBA; ++type)
        jobs.push_back([=, &ev] {
            Case cur;
            cur["@iter"];
            cur.set("type", type);
            u64 n = 0;
            try { mp::mp_with_index<NBA>(static_cast<std::size_t>(type), [&](auto T) { BAOps<mp::mp_at_c<BA, decltype(T)::value>>::iterator_moves(type, n); }); }
            catch (verif::Fail const& f) { ev.fail(cur, f.what()); }
            ev.eval(n);
            ev.nontrivial_counter += n;
        });
    std::atomic<std::size_t> next{0};
    std::vector<std::thread> thr;
    for (int t = 0; t < a.threads; ++t) thr.emplace_back([&] { for (;;) { std::size_t i = next++; if (i >= jobs.size()) return; jobs[i](); } });
    for (auto& t : thr) t.join();
    { Case c; c["@ba"]; c.set("type", 4); c.set("seed", static_cast<i64>(seed)); c.set("round", 17); ev.sample(c); }
    { Case c; c["@ba"]; c.set("type", 8); c.set("seed", static_cast<i64>(seed)); c.set("round", 4242); ev.sample(c); }
    { Case c; c["@packed16"]; c.set("type", 0); c.set("v", {0xA5C3, 1, 33}); ev.sample(c); }
    { Case c; c["@iter"]; c.set("type", 6); ev.sample(c); }
}

VERIF_MAIN(VERIF_TARGET_NAME)
