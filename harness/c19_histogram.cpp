// C19: histograms conserve mass and bin exactly the pixels that were counted.
//
// Model based: a history of up to three fill_histogram calls (different views, bin widths, accumulate / dense flags, masks, limit boxes) is
// applied to one gil::histogram and to a std::map<key,count> written from the statement: key = selected channels / bin width (C++ integer
// division), counted iff mask and lower <= key <= upper component-wise; accumulate adds, otherwise the previous contents are replaced.
// After every call the two are compared bin by bin (a bin present only on one side must hold 0), then the derived operations are
// checked against their definitions over the model: cumulative_histogram, both sub_histogram overloads, normalize, sum, and the
// std::vector / std::array / std::map fillers against the sparse histogram.
#include "common/rcx.hpp"
#include "common/viewlab.hpp"

#include <boost/gil/extension/histogram/std.hpp>
#include <boost/gil/histogram.hpp>

#include <map>

namespace gil = boost::gil;
namespace mp = boost::mp11;
using verif::Case;
using verif::i64;
using vl::get_ch;
using vl::nchan;
using vl::set_ch;

#ifndef VERIF_TARGET_NAME
#define VERIF_TARGET_NAME "c19_hist"
#endif

using Key = std::vector<i64>;
using Model = std::map<Key, double>;

// ------------------------------------------------------------------------------------------------ configurations
template <class PixelT, class HistT, std::size_t... Dims> struct Cfg
{
    using pixel = PixelT;
    using hist = HistT;
    using dims = std::index_sequence<Dims...>; // empty: all channels in order
    static constexpr std::size_t ndims = sizeof...(Dims);
    static constexpr bool planar = false;
};
template <class PixelT, class HistT, std::size_t... Dims> struct CfgPlanar : Cfg<PixelT, HistT, Dims...>
{
    static constexpr bool planar = true;
};
using Cfgs = mp::mp_list<
    Cfg<gil::gray8_pixel_t, gil::histogram<int>>,
    Cfg<gil::gray16_pixel_t, gil::histogram<int>>,
    Cfg<gil::gray8s_pixel_t, gil::histogram<int>>,
    Cfg<gil::rgb8_pixel_t, gil::histogram<int, int, int>>,
    Cfg<gil::rgb8_pixel_t, gil::histogram<int, int>, 2, 0>,
    Cfg<gil::rgba8_pixel_t, gil::histogram<int, int, int, int>>,
    Cfg<gil::gray16s_pixel_t, gil::histogram<short>>,
    Cfg<gil::rgb8_pixel_t, gil::histogram<int>, 1>,
    Cfg<gil::gray8_pixel_t, gil::histogram<unsigned char>>,
    Cfg<gil::rgb16s_pixel_t, gil::histogram<short, int, long>>,
    Cfg<gil::rgba8_pixel_t, gil::histogram<unsigned char, short>, 3, 1>,
    CfgPlanar<gil::rgb8_pixel_t, gil::histogram<int, int, int>>,
    CfgPlanar<gil::rgb16s_pixel_t, gil::histogram<int, int>, 0, 2>>;
constexpr int NCFG = static_cast<int>(mp::mp_size<Cfgs>::value);
static const char* cfg_name[NCFG] = {"gray8->hist<int>", "gray16->hist<int>", "gray8s->hist<int>", "rgb8->hist<int,int,int>", "rgb8<2,0>->hist<int,int>", "rgba8->hist<int x4>", "gray16s->hist<short>", "rgb8<1>->hist<int>",
                                     "gray8->hist<uchar>", "rgb16s->hist<short,int,long>", "rgba8<3,1>->hist<uchar,short>", "rgb8 planar->hist<int,int,int>", "rgb16s planar<0,2>->hist<int,int>"};

template <class C> std::vector<int> selected_channels()
{
    std::vector<int> r;
    if (C::ndims == 0) for (int k = 0; k < nchan<typename C::pixel>(); ++k) r.push_back(k);
    else mp::mp_for_each<mp::mp_from_sequence<typename C::dims>>([&](auto I) { r.push_back(static_cast<int>(decltype(I)::value)); });
    return r;
}
template <class Tuple, std::size_t... I> Key key_of(Tuple const& t, std::index_sequence<I...>) { return Key{static_cast<i64>(std::get<I>(t))...}; }
template <class Tuple> Key key_of(Tuple const& t) { return key_of(t, std::make_index_sequence<std::tuple_size<Tuple>::value>()); }
template <class Tuple, std::size_t... I> Tuple tuple_of(Key const& k, std::index_sequence<I...>) { return Tuple(static_cast<std::tuple_element_t<I, Tuple>>(k[I])...); }
template <class Tuple> Tuple tuple_of(Key const& k) { return tuple_of<Tuple>(k, std::make_index_sequence<std::tuple_size<Tuple>::value>()); }

template <class H> Model to_model(H const& h)
{
    Model m;
    for (auto const& kv : h) m[key_of(kv.first)] = kv.second;
    return m;
}
// bin by bin; a bin that exists on one side only has to be empty
static void same_bins(Model const& got, Model const& want, std::string const& what)
{
    for (auto const& kv : want)
    {
        auto it = got.find(kv.first);
        double g = it == got.end() ? 0 : it->second;
        std::string ks;
        for (i64 x : kv.first) ks += std::to_string(x) + " ";
        VCHECK(g == kv.second, what, ": bin (", ks, ") holds ", g, ", ", kv.second, " pixels were counted for it");
    }
    for (auto const& kv : got)
        if (!want.count(kv.first))
        {
            std::string ks;
            for (i64 x : kv.first) ks += std::to_string(x) + " ";
            VCHECK(kv.second == 0, what, ": bin (", ks, ") holds ", kv.second, " although no counted pixel maps to it");
        }
}
static double total(Model const& m) { double s = 0; for (auto const& kv : m) s += kv.second; return s; }

// ------------------------------------------------------------------------------------------------ one fill step
struct Step { i64 w, h, bw; bool accumulate, dense, mask, limits, defaults; std::uint64_t seed; i64 lo[4], hi[4]; int range; };

template <class C, class View> static void fill_view(View const& v, Step const& s)
{
    using P = typename C::pixel;
    verif::SplitMix r(s.seed);
    for (i64 y = 0; y < v.height(); ++y)
        for (i64 x = 0; x < v.width(); ++x)
        {
            auto&& p = v(x, y);
            for (int k = 0; k < nchan<P>(); ++k)
            {
                double lo = vl::ch_lo(P(), k), hi = vl::ch_hi(P(), k);
                // range 0: a few values around the middle (collisions), 1: around the ends, 2: whole range
                double val;
                std::uint64_t rv = r.next();
                if (s.range == 0) val = std::floor((lo + hi) / 2) - 6 + static_cast<double>(rv % 13);
                else if (s.range == 1) val = (rv & 1) ? lo + static_cast<double>((rv >> 1) % 7) : hi - static_cast<double>((rv >> 1) % 7);
                else val = lo + static_cast<double>(rv % (static_cast<std::uint64_t>(hi - lo) + 1));
                set_ch(p, k, val);
            }
        }
}

template <class C, std::size_t... D, class View, class Hist, class... Args> void call_fill(std::index_sequence<D...>, View const& v, Hist& h, Args&&... a)
{
    gil::fill_histogram<D...>(v, h, std::forward<Args>(a)...);
}

template <class C> static void apply_step(typename C::hist& hist, Model& model, Step const& s, std::string const& what)
{
    using P = typename C::pixel;
    using H = typename C::hist;
    using KeyT = typename H::key_type;
    constexpr std::size_t HD = std::tuple_size<KeyT>::value;
    gil::image<P, C::planar> img(s.w, s.h);
    fill_view<C>(gil::view(img), s);
    gil::image<P, C::planar> const snapshot(img);
    bool through_mutable_view = (s.seed & 4) != 0; // the histogram is filled from view(img) or const_view(img)
    auto sel = selected_channels<C>();
    std::vector<std::vector<bool>> mask;
    verif::SplitMix r(s.seed ^ 0xabc);
    if (s.mask)
    {
        mask.assign(static_cast<std::size_t>(s.h), std::vector<bool>(static_cast<std::size_t>(s.w)));
        for (auto& row : mask) for (std::size_t i = 0; i < row.size(); ++i) row[i] = r.below(3) != 0;
    }
    Key lo(HD), hi(HD);
    for (std::size_t d = 0; d < HD; ++d) { lo[d] = s.lo[d]; hi[d] = s.hi[d]; }
    KeyT lower = tuple_of<KeyT>(lo), upper = tuple_of<KeyT>(hi);
    // Limits are bin keys: the parameters have the histogram's key_type and are documented as "limit on the values in histogram",
    // and fill() compares them with the key (channel / bin width). (Only the dense pre-fill divides them once more; it creates empty
    // bins only, which are not counted pixels.)
    bool enforce = s.limits;
    bool dense = s.dense && HD == 1 && s.limits; // dense pre-fill exists for 1-D keys; run inside an explicit box
    // ---- library
    auto call = [&](auto const& srcv) {
        if (s.defaults) call_fill<C>(typename C::dims(), srcv, hist, static_cast<std::size_t>(s.bw), s.accumulate);
        else call_fill<C>(typename C::dims(), srcv, hist, static_cast<std::size_t>(s.bw), s.accumulate, !dense, s.mask, mask, lower, upper, enforce);
    };
    if (through_mutable_view) call(gil::view(img)); else call(gil::const_view(img));
    VCHECK(img == snapshot, what, ": filling the histogram changed the pixels of the source view");
    // ---- model
    if (!s.accumulate) model.clear();
    if (dense && !s.defaults)
        for (i64 v = lo[0]; v <= hi[0]; ++v) model.emplace(Key{v / s.bw}, 0.0); // pre-filled bins exist (possibly empty)
    long counted = 0;
    for (i64 y = 0; y < s.h; ++y)
        for (i64 x = 0; x < s.w; ++x)
        {
            if (s.mask && !s.defaults && !mask[static_cast<std::size_t>(y)][static_cast<std::size_t>(x)]) continue;
            P p = gil::const_view(img)(x, y);
            Key k;
            for (int ch : sel) k.push_back(static_cast<i64>(get_ch(p, ch)) / s.bw); // "divided by the bin width"
            bool in = true;
            if (enforce && !s.defaults) for (std::size_t d = 0; d < HD; ++d) in = in && lo[d] <= k[d] && k[d] <= hi[d];
            if (!in) continue;
            model[k] += 1;
            ++counted;
        }
    same_bins(to_model(hist), model, what);
    VCHECK(hist.sum() == total(model), what, ": sum() = ", hist.sum(), ", ", total(model), " pixels are in the histogram");
    (void)counted;
}

// ------------------------------------------------------------------------------------------------ derived operations
template <class H> static void check_derived(H& hist, Model const& model, Case const& c, std::string const& what)
{
    using KeyT = typename H::key_type;
    constexpr std::size_t HD = std::tuple_size<KeyT>::value;
    // cumulative: every bin is the mass of the bins that are <= in every axis
    {
        H cum = gil::cumulative_histogram(hist);
        Model cm = to_model(cum);
        Model want;
        if (HD == 1)
        {
            double run = 0; // std::map iterates in key order
            for (auto const& a : model) { run += a.second; want[a.first] = run; }
        }
        else
            for (auto const& a : model)
            {
                double s = 0;
                for (auto const& b : model)
                {
                    bool le = true;
                    for (std::size_t d = 0; d < HD; ++d) le = le && b.first[d] <= a.first[d];
                    if (le) s += b.second;
                }
                want[a.first] = s;
            }
        // a bin that only the library has (an empty pre-filled bin) holds the mass below it, not 0: extend the model's cumulative to those keys
        for (auto const& a : cm)
            if (!want.count(a.first))
            {
                double s = 0;
                for (auto const& b : model)
                {
                    bool le = true;
                    for (std::size_t d = 0; d < HD; ++d) le = le && b.first[d] <= a.first[d];
                    if (le) s += b.second;
                }
                want[a.first] = s;
            }
        for (auto const& a : want) VCHECK(cm.count(a.first) || a.second == 0 || !model.count(a.first) || model.at(a.first) == 0, what, ": cumulative_histogram lost a bin");
        {
            Model want_on_lib;
            for (auto const& a : cm) want_on_lib[a.first] = want[a.first];
            same_bins(cm, want_on_lib, what + ": cumulative_histogram");
        }
        // monotone along every axis, last bin = total
        if (HD == 1)
        {
            double prev = 0;
            for (auto const& a : cm) { VCHECK(prev <= a.second, what, ": cumulative_histogram is not monotone"); prev = a.second; }
        }
        else
            for (auto const& a : cm)
                for (auto const& b : cm)
                {
                    bool le = true;
                    for (std::size_t d = 0; d < HD; ++d) le = le && a.first[d] <= b.first[d];
                    if (le) VCHECK(a.second <= b.second, what, ": cumulative_histogram is not monotone");
                }
        if (!model.empty())
        {
            Key mx = model.begin()->first;
            for (auto const& a : model) for (std::size_t d = 0; d < HD; ++d) mx[d] = std::max(mx[d], a.first[d]);
            if (cm.count(mx)) VCHECK(cm[mx] == total(model), what, ": last cumulative bin = ", cm[mx], ", total = ", total(model));
        }
    }
    // marginalisation and range selection (keys of 2+ dimensions)
    if constexpr (HD >= 2)
    {
        auto s0 = hist.template sub_histogram<0>();
        Model want;
        for (auto const& a : model) want[Key{a.first[0]}] += a.second;
        same_bins(to_model(s0), want, what + ": sub_histogram<0>()");
        VCHECK(s0.sum() == total(model), what, ": sub_histogram<0>() changed the total mass to ", s0.sum());
        auto s1 = hist.template sub_histogram<HD - 1>();
        Model want1;
        for (auto const& a : model) want1[Key{a.first[HD - 1]}] += a.second;
        same_bins(to_model(s1), want1, what + ": sub_histogram<last>()");
        if constexpr (HD >= 3)
        {
            auto s20 = hist.template sub_histogram<2, 0>();
            Model want2;
            for (auto const& a : model) want2[Key{a.first[2], a.first[0]}] += a.second;
            same_bins(to_model(s20), want2, what + ": sub_histogram<2,0>()");
            VCHECK(s20.sum() == total(model), what, ": sub_histogram<2,0>() changed the total mass");
        }
        // range over one axis: exactly the bins whose component lies in [lo, hi]
        i64 lo = c.get("rlo"), hi = c.get("rhi");
        Key klo(HD, 0), khi(HD, 0);
        klo[1] = lo; khi[1] = hi;
        auto sr = hist.template sub_histogram<1>(tuple_of<KeyT>(klo), tuple_of<KeyT>(khi));
        Model wantr;
        for (auto const& a : model) if (lo <= a.first[1] && a.first[1] <= hi) wantr[a.first] = a.second;
        Model gotr = to_model(sr);
        same_bins(gotr, wantr, what + ": sub_histogram<1>(range)");
        for (auto const& a : gotr) VCHECK(lo <= a.first[1] && a.first[1] <= hi, what, ": sub_histogram<1>(range) kept a bin outside the range");
    }
    // normalize
    if (total(model) > 0)
    {
        H n = hist;
        n.normalize();
        double s = 0;
        for (auto const& kv : n) s += kv.second;
        VCHECK(std::fabs(s - 1.0) <= 1e-9, what, ": bins of the normalized histogram add up to ", s);
        Model nm = to_model(n);
        double const tot = total(model);
        for (auto const& a : model) VCHECK(std::fabs(nm[a.first] - a.second / tot) <= 1e-12, what, ": normalized bin");
    }
    // key helpers
    if (!model.empty())
    {
        auto sk = hist.sorted_keys();
        VCHECK(sk.size() == hist.size() && std::is_sorted(sk.begin(), sk.end()), what, ": sorted_keys");
        VCHECK(key_of(hist.min_key()) == key_of(sk.front()) && key_of(hist.max_key()) == key_of(sk.back()), what, ": min_key/max_key");
    }
}

// ------------------------------------------------------------------------------------------------ a history
static Step step_of(Case const& c, std::size_t i)
{
    auto const& l = c.list("steps");
    std::size_t o = i * 18;
    Step s;
    s.w = l.at(o); s.h = l.at(o + 1); s.bw = std::max<i64>(1, l.at(o + 2)); s.accumulate = l.at(o + 3) != 0; s.dense = l.at(o + 4) != 0; s.mask = l.at(o + 5) != 0; s.limits = l.at(o + 6) != 0; s.defaults = l.at(o + 7) != 0;
    s.seed = static_cast<std::uint64_t>(l.at(o + 8)); s.range = static_cast<int>(l.at(o + 9) % 3);
    for (int d = 0; d < 4; ++d) { s.lo[d] = l.at(o + 10 + static_cast<std::size_t>(d)); s.hi[d] = l.at(o + 14 + static_cast<std::size_t>(d)); }
    return s;
}
static void run_history(Case const& c)
{
    int cfg = static_cast<int>(c.get("cfg")) % NCFG;
    mp::mp_with_index<NCFG>(static_cast<std::size_t>(cfg), [&](auto I) {
        using C = mp::mp_at_c<Cfgs, decltype(I)::value>;
        using P = typename C::pixel;
        typename C::hist hist;
        Model model;
        std::size_t n = c.list("steps").size() / 18;
        auto sel = selected_channels<C>();
        for (std::size_t i = 0; i < n; ++i)
        {
            Step s = step_of(c, i);
            // limit boxes are given relative to the channel range of each selected channel so that they intersect the data
            for (std::size_t d = 0; d < sel.size() && d < 4; ++d)
            {
                double lo = vl::ch_lo(P(), sel[d]), hi = vl::ch_hi(P(), sel[d]);
                i64 mid = static_cast<i64>(std::floor((lo + hi) / 2)) / s.bw;
                i64 a = s.lo[d], b = s.hi[d];
                if (s.range == 1) { s.lo[d] = static_cast<i64>(lo) / s.bw + a % 4; s.hi[d] = static_cast<i64>(hi) / s.bw - b % 4; }
                else { s.lo[d] = mid - a; s.hi[d] = mid + b; }
                // keys have to be representable in the histogram's key type (gray8 -> unsigned char): clamp to the channel range / bin width
                s.lo[d] = std::max<i64>(s.lo[d], static_cast<i64>(lo) / s.bw);
                s.hi[d] = std::min<i64>(s.hi[d], static_cast<i64>(hi) / s.bw);
                if (s.hi[d] < s.lo[d]) s.hi[d] = s.lo[d];
            }
            // a dense pre-fill creates one bin per key of the box: keep it to a few hundred bins (16-bit boxes at the range ends are 65k wide)
            if (s.dense && s.hi[0] - s.lo[0] > 300) s.hi[0] = s.lo[0] + 300;
            std::string what = std::string(cfg_name[cfg]) + " fill #" + std::to_string(i + 1) + " (" + std::to_string(s.w) + "x" + std::to_string(s.h) + ", bin width " + std::to_string(s.bw) + (s.accumulate ? ", accumulate" : ", replace") +
                               (s.defaults ? ", defaulted arguments" : std::string(s.dense ? ", dense" : ", sparse") + (s.mask ? ", mask" : "") + (s.limits ? ", limits" : "")) + ")";
            apply_step<C>(hist, model, s, what);
            if (i + 1 == n) check_derived(hist, model, c, what);
        }
    });
}

// ------------------------------------------------------------------------------------------------ std containers
static void run_std(Case const& c)
{
    i64 w = c.get("w"), h = c.get("h");
    std::uint64_t seed = static_cast<std::uint64_t>(c.get("seed"));
    bool accumulate = c.get("accumulate") != 0;
    int type = static_cast<int>(c.get("type")) % 4;
    auto body = [&](auto PT) {
        using P = decltype(PT);
        using Ch = typename gil::channel_type<P>::type;
        gil::image<P> img1(w, h), img2(c.get("w2"), c.get("h2"));
        Step s1{}; s1.seed = seed; s1.range = static_cast<int>(c.get("range") % 3);
        Step s2 = s1; s2.seed = seed ^ 0x99;
        using C1 = Cfg<P, gil::histogram<int>>;
        fill_view<C1>(gil::view(img1), s1);
        fill_view<C1>(gil::view(img2), s2);
        // reference: the sparse histogram of the gray view (the std fillers look at the view through a gray conversion)
        using G = gil::pixel<Ch, gil::gray_layout_t>;
        gil::histogram<int> sparse;
        auto g1 = gil::color_converted_view<G>(gil::const_view(img1)), g2 = gil::color_converted_view<G>(gil::const_view(img2));
        gil::image<G> gi1(w, h), gi2(c.get("w2"), c.get("h2"));
        gil::copy_pixels(g1, gil::view(gi1));
        gil::copy_pixels(g2, gil::view(gi2));
        gil::fill_histogram(gil::const_view(gi1), sparse, 1, false);
        gil::fill_histogram(gil::const_view(gi2), sparse, 1, accumulate);
        Model want = to_model(sparse);
        std::string what = std::string("std containers, ") + (accumulate ? "accumulate" : "replace");
        if constexpr (std::is_unsigned<Ch>::value)
        {
            // the vector arrives empty, or with stale counts and a size below / equal to / above the channel's bin count (a container
            // re-used from an image of another depth): the first, non-accumulating fill replaces all of that
            std::size_t bins = static_cast<std::size_t>(std::numeric_limits<Ch>::max()) + 1;
            std::size_t presize[5] = {0, 10, bins - 1, bins, bins + 5};
            std::vector<int> vec(presize[static_cast<std::size_t>(w + 3 * h + c.get("w2")) % 5], 7);
            gil::fill_histogram(gil::const_view(img1), vec);
            gil::fill_histogram(gil::const_view(img2), vec, accumulate);
            VCHECK(vec.size() == static_cast<std::size_t>(std::numeric_limits<Ch>::max()) + 1, what, ": vector size ", vec.size());
            Model mv;
            for (std::size_t i = 0; i < vec.size(); ++i) if (vec[i]) mv[Key{static_cast<i64>(i)}] = vec[i];
            same_bins(mv, want, what + ": std::vector");
            auto cv = gil::cumulative_histogram(vec);
            long run = 0;
            for (std::size_t i = 0; i < vec.size(); ++i) { run += vec[i]; VCHECK(cv[i] == run, what, ": cumulative vector at ", i); }
            if constexpr (sizeof(Ch) == 1)
            {
                std::array<int, 256> arr;
                arr.fill(7);
                gil::fill_histogram(gil::const_view(img1), arr);
                gil::fill_histogram(gil::const_view(img2), arr, accumulate);
                Model ma;
                for (std::size_t i = 0; i < arr.size(); ++i) if (arr[i]) ma[Key{static_cast<i64>(i)}] = arr[i];
                same_bins(ma, want, what + ": std::array<int,256>");
                auto ca = gil::cumulative_histogram(arr);
                VCHECK(ca[255] == static_cast<int>(total(want)), what, ": cumulative array total");
            }
        }
        std::map<int, int> mp1;
        gil::fill_histogram(gil::const_view(img1), mp1);
        gil::fill_histogram(gil::const_view(img2), mp1, accumulate);
        Model mm;
        for (auto const& kv : mp1) mm[Key{kv.first}] = kv.second;
        same_bins(mm, want, what + ": std::map<int,int>");
        auto cmm = gil::cumulative_histogram(mp1);
        int run = 0;
        for (auto const& kv : mp1) { run += kv.second; VCHECK(cmm[kv.first] == run, what, ": cumulative map at ", kv.first); }
    };
    switch (type)
    {
    case 0: body(gil::gray8_pixel_t()); break;
    case 1: body(gil::gray16_pixel_t()); break;
    case 2: body(gil::rgb8_pixel_t()); break;
    default: body(gil::gray8s_pixel_t()); break;
    }
}

// ------------------------------------------------------------------------------------------------ generators
static Case gen_history()
{
    Case c;
    c.set("cfg", verif::pick(0, NCFG - 1));
    int n = static_cast<int>(verif::pick(1, 3));
    std::vector<i64> steps;
    for (int i = 0; i < n; ++i)
    {
        steps.push_back(verif::weighted({1, 9}) == 0 ? 0 : verif::pick(1, 7)); steps.push_back(verif::weighted({1, 9}) == 0 ? 0 : verif::pick(1, 7));
        steps.push_back(verif::weighted({4, 6}) == 0 ? 1 : verif::pick(2, 9));       // bin width
        steps.push_back(verif::coin(50) ? 1 : 0);                                      // accumulate
        steps.push_back(verif::coin(40) ? 1 : 0);                                      // dense
        steps.push_back(verif::coin(40) ? 1 : 0);                                      // mask
        steps.push_back(verif::coin(50) ? 1 : 0);                                      // limits
        steps.push_back(verif::coin(15) ? 1 : 0);                                      // defaulted arguments
        steps.push_back(verif::seed64());
        steps.push_back(verif::pick(0, 2));                                            // value range kind
        for (int d = 0; d < 8; ++d) steps.push_back(verif::pick(0, 5));
    }
    c.set("steps", steps);
    c.set("rlo", verif::pick(-3, 130)); c.set("rhi", verif::pick(0, 255));
    return c;
}
static Case gen_std()
{
    Case c;
    c.set("type", verif::pick(0, 3));
    c.set("w", verif::pick(0, 8)); c.set("h", verif::pick(0, 8)); c.set("w2", verif::pick(0, 8)); c.set("h2", verif::pick(0, 8));
    c.set("accumulate", verif::coin(50) ? 1 : 0); c.set("range", verif::pick(0, 2));
    c.set("seed", verif::seed64());
    return c;
}

void verif_replay(Case const& c)
{
    std::string t = verif::case_target(c);
    if (t == "history") run_history(c);
    else if (t == "std") run_std(c);
    else throw verif::Fail("unknown sub-target " + t);
}

void verif_run(verif::Args const& a, verif::Evidence& ev)
{
    bool th = a.thorough();
    ev.rule = "history: one of 13 (view type, histogram key types, channel selection) configurations (two of them planar) (1-4 channels, 8/16 bit, signed and unsigned, key types uchar/short/int/long), 1..3 consecutive fill_histogram calls on the same "
              "histogram, each with its own view (0..7 x 0..7, values clustered / at the range ends / whole range), bin width 1..9, accumulate or replace, sparse or dense (1-D, inside a box), random mask, limit box, or defaulted "
              "arguments -> after every call every bin equals the model's count, sum() equals the number of counted pixels; after the last call cumulative_histogram, sub_histogram<axes>(), sub_histogram<axis>(range), normalize, "
              "sorted/min/max keys against their definitions. std: vector / array<256> / map fillers and their cumulative versions against the sparse histogram of the gray view, two fills. "
              "non-trivial (history): at least two calls or a bin width above 1, and a non-empty first view; distinct = all keys.";
    int n = th ? 1200000 : 30000;
    verif::rc_search(ev, a, "history", n, 60, gen_history, run_history, [](Case const& c) { auto const& l = c.list("steps"); return l[0] > 0 && l[1] > 0 && (l.size() > 18 || l[2] > 1); }, {"cfg", "steps", "rlo", "rhi"});
    verif::rc_search(ev, a, "std", n / 4, 60, gen_std, run_std, [](Case const& c) { return c.get("w") > 0 && c.get("h") > 0; }, {"type", "w", "h", "w2", "h2", "accumulate", "range"});
}

VERIF_MAIN(VERIF_TARGET_NAME)
