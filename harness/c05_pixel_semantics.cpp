// C05 — pixel operations pair channels by colour, independent of memory layout.
// Engine: every ordered pair of pixel models of each colour space group (values, C++ references, planar references, packed pixels,
// bit-aligned references; all provided layouts) x seeded channel values (complete 2^16 contents for the 16-bit packed group).
// Oracle: name-based reference (get_color by colour tag), raw memory order for interleaved values, visit counters for static_* algorithms.
#include "common/verif.hpp"

#include <boost/gil.hpp>
#include <boost/mp11.hpp>

#include <array>
#include <algorithm>
#include <vector>
#include <thread>

namespace gil = boost::gil;
namespace mp = boost::mp11;
using namespace boost::gil;
using verif::Case;
using verif::i64;
using u64 = std::uint64_t;

// ------------------------------------------------------------------------------------------------ generic channel access by colour
template <class Ch> static double rd(Ch&& ch)
{
    using V = typename channel_traits<std::decay_t<Ch>>::value_type;
    if constexpr (std::is_arithmetic<V>::value) return static_cast<double>(static_cast<V>(ch));
    else if constexpr (std::is_same<V, float32_t>::value) return static_cast<double>(static_cast<float>(ch));
    else return static_cast<double>(static_cast<typename V::integer_t>(ch));
}
template <class Ch> static void wr(Ch&& ch, double v)
{
    using V = typename channel_traits<std::decay_t<Ch>>::value_type;
    if constexpr (std::is_arithmetic<V>::value) ch = static_cast<V>(v);
    else if constexpr (std::is_same<V, float32_t>::value) ch = V(static_cast<float>(v));
    else ch = V(static_cast<typename V::integer_t>(v));
}
template <class Ch> static double ch_max(Ch&& ch)
{
    using R = std::decay_t<Ch>;
    using V = typename channel_traits<R>::value_type;
    if constexpr (std::is_same<V, float32_t>::value) return 1.0;
    else return static_cast<double>(channel_traits<R>::max_value());
}
template <class Ch> static double ch_min(Ch&& ch)
{
    using R = std::decay_t<Ch>;
    using V = typename channel_traits<R>::value_type;
    if constexpr (std::is_same<V, float32_t>::value) return 0.0;
    else return static_cast<double>(channel_traits<R>::min_value());
}
template <class P> using cs_t = typename color_space_type<std::decay_t<P>>::type;
template <class P> constexpr int NCH = static_cast<int>(mp::mp_size<cs_t<P>>::value);
template <class P> using ch0_t = std::decay_t<decltype(at_c<0>(std::declval<std::decay_t<P>&>()))>;
template <class P> constexpr bool is_float_pixel = std::is_same<typename channel_traits<ch0_t<P>>::value_type, float32_t>::value;
template <class P> constexpr bool is_plain_channel = std::is_arithmetic<ch0_t<P>>::value;

// value of colour #ci (index into the colour space, NOT memory order)
template <class P> static double color_get(P const& p, int ci)
{
    double r = 0;
    mp::mp_with_index<mp::mp_size<cs_t<P>>::value>(static_cast<std::size_t>(ci), [&](auto I) { r = rd(get_color(p, mp::mp_at_c<cs_t<P>, decltype(I)::value>())); });
    return r;
}
template <class P> static void color_set(P&& p, int ci, double v)
{
    mp::mp_with_index<mp::mp_size<cs_t<P>>::value>(static_cast<std::size_t>(ci), [&](auto I) { wr(get_color(p, mp::mp_at_c<cs_t<P>, decltype(I)::value>()), v); });
}
template <class P> static double color_max(P const& p, int ci)
{
    double r = 0;
    mp::mp_with_index<mp::mp_size<cs_t<P>>::value>(static_cast<std::size_t>(ci), [&](auto I) { r = ch_max(get_color(p, mp::mp_at_c<cs_t<P>, decltype(I)::value>())); });
    return r;
}
template <class P> static double color_min(P const& p, int ci)
{
    double r = 0;
    mp::mp_with_index<mp::mp_size<cs_t<P>>::value>(static_cast<std::size_t>(ci), [&](auto I) { r = ch_min(get_color(p, mp::mp_at_c<cs_t<P>, decltype(I)::value>())); });
    return r;
}
static double pick_value(u64 h, double lo, double hi, bool is_float)
{
    if (is_float) return static_cast<double>(static_cast<float>(h % 1024) / 1023.0f);
    double range = hi - lo;
    u64 n = range >= 4294967295.0 ? 4294967296ULL : static_cast<u64>(range) + 1;
    return lo + static_cast<double>(h % n);
}

// ------------------------------------------------------------------------------------------------ pixel model holders
// A holder owns whatever storage the model needs and exposes `ref()`: something that behaves as the pixel (value&, proxy)
template <class Pix> struct ValueHolder
{
    static const char* kind() { return "value"; }
    Pix p{};
    Pix& ref() { return p; }
};
template <class Pix> struct CRefHolder // reads through `const Pix&`, writes through the value
{
    static const char* kind() { return "cref"; }
    Pix p{};
    Pix& ref() { return p; }
    Pix const& cref() const { return p; }
};
template <class PlanarImg> struct PlanarHolder
{
    static const char* kind() { return "planar_ref"; }
    PlanarImg img;
    PlanarHolder() : img(3, 2) { }
    typename PlanarImg::view_t::reference ref() { return view(img)(1, 1); }
};
template <class BAImg> struct BitAlignedHolder
{
    static const char* kind() { return "bit_aligned_ref"; }
    BAImg img;
    BitAlignedHolder() : img(5, 2) { }
    typename BAImg::view_t::reference ref() { return view(img)(3, 1); } // not byte aligned for most types
};

template <class H> static const char* holder_name();
template <class P> struct is_plain_pixel : std::false_type {};
// (the mutable binding constructor takes pixel<T, layout<ColorSpace, Mapping>>&: layouts that merely derive from layout<>, like devicen_layout_t, do not bind)
template <class T, class CS, class M> struct is_plain_pixel<gil::pixel<T, gil::layout<CS, M>>> : std::integral_constant<bool, std::is_arithmetic<T>::value || std::is_same<T, gil::float32_t>::value> {};

// ------------------------------------------------------------------------------------------------ the checks for one ordered pair (S holder, D holder)
template <class SH, class DH> static void check_pair(u64 seed, int rounds, u64& n, Case& cur)
{
    using SP = std::decay_t<decltype(std::declval<SH&>().ref())>;
    using DP = std::decay_t<decltype(std::declval<DH&>().ref())>;
    static_assert(std::is_same<cs_t<SP>, cs_t<DP>>::value, "pairs are within one colour space");
    constexpr int N = NCH<SP>;
    verif::SplitMix r(seed);
    for (int round = 0; round < rounds; ++round)
    {
        cur.set("round", round);
        SH sh;
        DH dh;
        auto&& s = sh.ref();
        auto&& d = dh.ref();
        double sv[8], dv[8];
        bool distinct = true;
        for (int c = 0; c < N; ++c)
        {
            bool isf = color_max(s, c) == 1.0 && color_min(s, c) == 0.0 && is_float_pixel<SP>;
            sv[c] = pick_value(r.next(), color_min(s, c), color_max(s, c), isf);
            dv[c] = pick_value(r.next(), color_min(d, c), color_max(d, c), isf);
            color_set(s, c, sv[c]);
            color_set(d, c, dv[c]);
        }
        for (int c = 0; c < N; ++c) for (int e = 0; e < c; ++e) if (sv[c] == sv[e]) distinct = false;
        (void)distinct;
        for (int c = 0; c < N; ++c)
        {
            VCHECK(color_get(s, c) == sv[c], "get_color does not read back what was written through get_color (source)", c);
            VCHECK(color_get(d, c) == dv[c], "get_color does not read back what was written through get_color (destination)", c);
        }
        // assignment pairs by colour
        d = s;
        for (int c = 0; c < N; ++c) VCHECK(color_get(d, c) == sv[c], "after dst = src colour", c, "of dst is", color_get(d, c), "but src has", sv[c]);
        for (int c = 0; c < N; ++c) VCHECK(color_get(s, c) == sv[c], "assignment changed the source");
        VCHECK(d == s, "dst == src is false right after dst = src");
        VCHECK(!(d != s), "dst != src is true right after dst = src");
        VCHECK(s == d, "src == dst is false right after dst = src");
        // changing any one named colour breaks equality (and only that)
        for (int c = 0; c < N; ++c)
        {
            double old = color_get(d, c);
            double nv = old == color_max(d, c) ? color_min(d, c) : color_max(d, c);
            color_set(d, c, nv);
            VCHECK(!(d == s) && (d != s), "pixels compare equal although colour", c, "differs");
            for (int e = 0; e < N; ++e) if (e != c) VCHECK(color_get(d, e) == sv[e], "writing colour", c, "changed colour", e);
            color_set(d, c, old);
        }
        VCHECK(d == s, "restoring the colour did not restore equality");
        // construction of a value from the source pairs by colour too
        {
            using DV = typename DP::value_type;
            DV v(s);
            for (int c = 0; c < N; ++c) VCHECK(color_get(v, c) == sv[c], "value constructed from src: colour", c, "is", color_get(v, c), "but src has", sv[c]);
            VCHECK(v == s, "value constructed from src != src");
        }
        // a planar reference proxy bound to a mutable interleaved pixel (the proxy's own channel order is the colour space's):
        // its colours are the pixel's colours by name, and a write through it changes exactly that colour of the pixel
        if constexpr (is_plain_pixel<SP>::value && std::is_lvalue_reference<decltype(sh.ref())>::value)
        {
            using ch_t = typename gil::channel_type<SP>::type;
            using pref_t = gil::planar_pixel_reference<ch_t&, cs_t<SP>>;
            using cpref_t = gil::planar_pixel_reference<ch_t const&, cs_t<SP>>;
            pref_t pr(s);
            cpref_t cpr(s);
            for (int c = 0; c < N; ++c)
            {
                VCHECK(color_get(pr, c) == sv[c], "planar reference bound to a", SH::kind(), "pixel: colour", c, "reads", color_get(pr, c), "but the pixel has", sv[c]);
                VCHECK(color_get(cpr, c) == sv[c], "const planar reference bound to a pixel: colour", c);
            }
            VCHECK(pr == s && cpr == s, "planar reference bound to a pixel compares unequal to it");
            for (int c = 0; c < N; ++c)
            {
                double old = sv[c];
                double nv = old == color_max(s, c) ? color_min(s, c) : color_max(s, c);
                color_set(pr, c, nv);
                for (int e = 0; e < N; ++e) VCHECK(color_get(s, e) == (e == c ? nv : sv[e]), "writing colour", c, "through a planar reference bound to a pixel changed colour", e, "of the pixel to", color_get(s, e));
                color_set(pr, c, old);
            }
        }
        // static_copy / static_equal / static_fill / static_transform / static_for_each pair by colour
        for (int c = 0; c < N; ++c) color_set(d, c, dv[c]);
        static_copy(s, d);
        for (int c = 0; c < N; ++c) VCHECK(color_get(d, c) == sv[c], "static_copy did not pair channels by colour", c);
        VCHECK(static_equal(s, d), "static_equal false after static_copy");
        {
            double old = color_get(d, N - 1);
            color_set(d, N - 1, old == color_max(d, N - 1) ? color_min(d, N - 1) : color_max(d, N - 1));
            VCHECK(!static_equal(s, d), "static_equal true although the last colour differs");
            color_set(d, N - 1, old);
        }
        {
            int visits = 0;
            bool paired = true;
            static_for_each(s, d, [&](auto const& a, auto const& b) { ++visits; if (rd(a) != rd(b)) paired = false; });
            VCHECK(visits == N, "static_for_each (2 args) visited", visits, "channels instead of", N);
            VCHECK(paired, "static_for_each (2 args) paired channels of different colours");
            int v1 = 0;
            double sum = 0;
            static_for_each(s, [&](auto const& a) { ++v1; sum += rd(a); });
            double want = 0;
            for (int c = 0; c < N; ++c) want += sv[c];
            VCHECK(v1 == N && sum == want, "static_for_each (1 arg) did not visit each channel exactly once", v1);
        }
        {
            // static_transform: dst(colour) = max(src(colour), mid) paired by colour
            using DV = typename DP::value_type;
            DV out;
            static_transform(s, d, out, [](auto const& a, auto const& b) { return rd(a) >= rd(b) ? a : a; });
            for (int c = 0; c < N; ++c) VCHECK(color_get(out, c) == sv[c], "static_transform (2 sources) did not pair by colour", c);
            DV out1;
            static_transform(s, out1, [](auto const& a) { return a; });
            for (int c = 0; c < N; ++c) VCHECK(color_get(out1, c) == sv[c], "static_transform (1 source) did not pair by colour", c);
        }
        {
            // every const / non-const overload of the two- and three-argument algorithms, with DIFFERENT values in the two sources:
            // the recorded (first, second[, third]) channel values must be exactly the by-colour pairs, each once
            using DV = typename DP::value_type;
            for (int c = 0; c < N; ++c) color_set(d, c, dv[c]);
            auto const& cs = s;
            auto const& cd = d;
            std::vector<std::array<double, 3>> want, got;
            for (int c = 0; c < N; ++c) want.push_back({sv[c], dv[c], sv[c]});
            std::sort(want.begin(), want.end());
            auto settle = [&](const char* what, bool three) {
                std::sort(got.begin(), got.end());
                if (!three) for (auto& g : got) g[2] = g[0];
                VCHECK(got == want, what, ": the channels handed to the operation are not the by-colour pairs of the sources; first pair seen", got.empty() ? -1.0 : got[0][0], got.empty() ? -1.0 : got[0][1]);
                got.clear();
            };
            auto rec2 = [&got](auto const& a, auto const& b) { got.push_back({rd(a), rd(b), 0.0}); return a; };
            auto rec3 = [&got](auto const& a, auto const& b, auto const& e) { got.push_back({rd(a), rd(b), rd(e)}); };
            auto tr = [&](auto& a, auto& b, const char* what) {
                DV out;
                static_transform(a, b, out, rec2);
                settle(what, false);
                for (int c = 0; c < N; ++c) VCHECK(color_get(out, c) == sv[c], what, ": result colour", c, "is", color_get(out, c), "but the first source has", sv[c]);
            };
            tr(s, d, "static_transform(P1&, P2&)");
            tr(s, cd, "static_transform(P1&, const P2&)");
            tr(cs, d, "static_transform(const P1&, P2&)");
            tr(cs, cd, "static_transform(const P1&, const P2&)");
            auto fe2 = [&](auto& a, auto& b, const char* what) { static_for_each(a, b, [&](auto const& x, auto const& y) { rec2(x, y); }); settle(what, false); };
            fe2(s, d, "static_for_each(P1&, P2&)");
            fe2(s, cd, "static_for_each(P1&, const P2&)");
            fe2(cs, d, "static_for_each(const P1&, P2&)");
            fe2(cs, cd, "static_for_each(const P1&, const P2&)");
            DV third(s);
            auto const& cthird = third;
            auto fe3 = [&](auto& a, auto& b, auto& e, const char* what) { static_for_each(a, b, e, rec3); settle(what, true); };
            fe3(s, d, third, "static_for_each(P1&, P2&, P3&)");
            fe3(s, d, cthird, "static_for_each(P1&, P2&, const P3&)");
            fe3(s, cd, third, "static_for_each(P1&, const P2&, P3&)");
            fe3(s, cd, cthird, "static_for_each(P1&, const P2&, const P3&)");
            fe3(cs, d, third, "static_for_each(const P1&, P2&, P3&)");
            fe3(cs, d, cthird, "static_for_each(const P1&, P2&, const P3&)");
            fe3(cs, cd, third, "static_for_each(const P1&, const P2&, P3&)");
            fe3(cs, cd, cthird, "static_for_each(const P1&, const P2&, const P3&)");
            // one-source forms through the const reference too
            DV outc;
            static_transform(cs, outc, [](auto const& a) { return a; });
            for (int c = 0; c < N; ++c) VCHECK(color_get(outc, c) == sv[c], "static_transform(const P1&) did not pair by colour", c);
            double sumc = 0, wantc = 0;
            static_for_each(cs, [&](auto const& a) { sumc += rd(a); });
            for (int c = 0; c < N; ++c) wantc += sv[c];
            VCHECK(sumc == wantc, "static_for_each(const P1&) did not visit each channel once");
            static_copy(s, d);
        }
        ++n;
    }
}

// checks on a single model: at_c / semantic_at_c / operator[] / memory order / static_fill / generate / min / max
template <class H> static void check_single(u64 seed, int rounds, u64& n, Case& cur)
{
    using P = std::decay_t<decltype(std::declval<H&>().ref())>;
    using L = typename P::layout_t;
    using mapping = typename L::channel_mapping_t;
    constexpr int N = NCH<P>;
    verif::SplitMix r(seed);
    for (int round = 0; round < rounds; ++round)
    {
        cur.set("round", round);
        H h;
        auto&& p = h.ref();
        double cv[8];
        for (int c = 0; c < N; ++c) { cv[c] = pick_value(r.next(), color_min(p, c), color_max(p, c), color_max(p, c) == 1.0 && is_float_pixel<P>); color_set(p, c, cv[c]); }
        // semantic_at_c<K> is the K-th colour of the colour space; at_c<mapping[K]> is the same channel
        mp::mp_for_each<mp::mp_iota_c<N>>([&](auto K) {
            constexpr int k = decltype(K)::value;
            constexpr int mem = mp::mp_at_c<mapping, k>::value;
            VCHECK(rd(semantic_at_c<k>(p)) == cv[k], "semantic_at_c<K> is not the K-th colour", k);
            VCHECK(rd(at_c<mem>(p)) == cv[k], "at_c<mapping[K]> is not the K-th colour", k, mem);
            // write through one, read through the other
            double nv = cv[k] == color_max(p, k) ? color_min(p, k) : color_max(p, k);
            wr(at_c<mem>(p), nv);
            VCHECK(rd(semantic_at_c<k>(p)) == nv && color_get(p, k) == nv, "a write through at_c<mapping[K]> is not seen through semantic_at_c<K> / get_color", k);
            for (int e = 0; e < N; ++e) if (e != k) VCHECK(color_get(p, e) == cv[e], "a write through at_c changed another colour", k, e);
            wr(semantic_at_c<k>(p), cv[k]);
            VCHECK(rd(at_c<mem>(p)) == cv[k], "a write through semantic_at_c<K> is not seen through at_c<mapping[K]>", k);
        });
        // operator[] (dynamic) == at_c for homogeneous value pixels; memory order of interleaved values
        if constexpr (std::is_same<P, typename P::value_type>::value && is_plain_channel<P>)
        {
            using C = ch0_t<P>;
            C const* raw = reinterpret_cast<C const*>(&p);
            mp::mp_for_each<mp::mp_iota_c<N>>([&](auto K) {
                constexpr int k = decltype(K)::value;
                VCHECK(static_cast<double>(p[k]) == rd(at_c<k>(p)), "operator[] differs from at_c", k);
                VCHECK(static_cast<double>(raw[k]) == rd(at_c<k>(p)), "at_c<K> is not the K-th channel in memory", k);
            });
        }
        // static_fill / static_generate / static_min / static_max
        {
            typename P::value_type v(p);
            double mn = 1e300, mx = -1e300;
            for (int c = 0; c < N; ++c) { mn = std::min(mn, cv[c]); mx = std::max(mx, cv[c]); }
            if constexpr (is_plain_channel<P> || is_float_pixel<P>)
            {
                VCHECK(rd(static_min(v)) == mn, "static_min is not the minimum over the channels");
                VCHECK(rd(static_max(v)) == mx, "static_max is not the maximum over the channels");
            }
            int calls = 0;
            static_generate(v, [&] { ++calls; return typename channel_traits<ch0_t<P>>::value_type(); });
            VCHECK(calls == N, "static_generate called the generator", calls, "times for", N, "channels");
        }
        ++n;
    }
}

// ------------------------------------------------------------------------------------------------ groups
using pk565 = packed_pixel_type<std::uint16_t, mp::mp_list_c<unsigned, 5, 6, 5>, rgb_layout_t>::type;
using pk565bgr = packed_pixel_type<std::uint16_t, mp::mp_list_c<unsigned, 5, 6, 5>, bgr_layout_t>::type;
using ba565 = bit_aligned_image3_type<5, 6, 5, rgb_layout_t>::type;
using ba565bgr = bit_aligned_image3_type<5, 6, 5, bgr_layout_t>::type;
using pk8888 = packed_pixel_type<std::uint32_t, mp::mp_list_c<unsigned, 8, 8, 8, 8>, rgba_layout_t>::type;
using ba8888 = bit_aligned_image4_type<8, 8, 8, 8, rgba_layout_t>::type;
using ba8888argb = bit_aligned_image4_type<8, 8, 8, 8, argb_layout_t>::type;

using G_rgb8 = mp::mp_list<ValueHolder<rgb8_pixel_t>, ValueHolder<bgr8_pixel_t>, PlanarHolder<rgb8_planar_image_t>, PlanarHolder<image<bgr8_pixel_t, true>>>;
using G_rgba8 = mp::mp_list<ValueHolder<rgba8_pixel_t>, ValueHolder<bgra8_pixel_t>, ValueHolder<argb8_pixel_t>, ValueHolder<abgr8_pixel_t>, PlanarHolder<rgba8_planar_image_t>, PlanarHolder<image<argb8_pixel_t, true>>>;
using G_565 = mp::mp_list<ValueHolder<pk565>, ValueHolder<pk565bgr>, BitAlignedHolder<ba565>, BitAlignedHolder<ba565bgr>>;
using G_8888 = mp::mp_list<ValueHolder<pk8888>, BitAlignedHolder<ba8888>, BitAlignedHolder<ba8888argb>>;
using G_cmyk8 = mp::mp_list<ValueHolder<cmyk8_pixel_t>, PlanarHolder<image<cmyk8_pixel_t, true>>>;
using G_rgb16 = mp::mp_list<ValueHolder<rgb16_pixel_t>, ValueHolder<bgr16_pixel_t>, PlanarHolder<rgb16_planar_image_t>>;
using G_rgb32f = mp::mp_list<ValueHolder<rgb32f_pixel_t>, ValueHolder<bgr32f_pixel_t>, PlanarHolder<rgb32f_planar_image_t>>;
using G_rgba16s = mp::mp_list<ValueHolder<rgba16s_pixel_t>, ValueHolder<abgr16s_pixel_t>, ValueHolder<argb16s_pixel_t>>;
using G_dn2 = mp::mp_list<ValueHolder<pixel<std::uint8_t, devicen_layout_t<2>>>, PlanarHolder<image<pixel<std::uint8_t, devicen_layout_t<2>>, true>>>;
using G_dn5 = mp::mp_list<ValueHolder<pixel<std::uint8_t, devicen_layout_t<5>>>, PlanarHolder<image<pixel<std::uint8_t, devicen_layout_t<5>>, true>>>;
using ba_g4 = bit_aligned_image1_type<4, gray_layout_t>::type;
using G_gray = mp::mp_list<ValueHolder<ba_g4::value_type>, BitAlignedHolder<ba_g4>>;
using Groups = mp::mp_list<G_rgb8, G_rgba8, G_565, G_8888, G_cmyk8, G_rgb16, G_rgb32f, G_rgba16s, G_dn2, G_dn5, G_gray>;
static const char* group_name[] = {"rgb8", "rgba8", "rgb565", "rgba8888", "cmyk8", "rgb16", "rgb32f", "rgba16s", "devicen2", "devicen5", "gray4_bits"};
constexpr int NG = static_cast<int>(mp::mp_size<Groups>::value);
// the harness is built as C05_PARTS binaries (compile time of the overload matrix), binary C05_PART holding the groups gi % C05_PARTS == C05_PART
#ifndef C05_PARTS
#define C05_PARTS 1
#define C05_PART 0
#endif
template <int GI> constexpr bool in_part = (GI % C05_PARTS) == C05_PART;

template <class G> static void run_group(verif::Evidence& ev, int gi, u64 seed, int rounds)
{
    constexpr int M = static_cast<int>(mp::mp_size<G>::value);
    mp::mp_for_each<mp::mp_iota_c<M>>([&](auto I) {
        using SH = mp::mp_at_c<G, decltype(I)::value>;
        {
            Case cur;
            cur["@single"];
            cur.set("group", gi);
            cur.set("m", static_cast<i64>(decltype(I)::value));
            cur.set("seed", static_cast<i64>(seed & 0x7fffffffffffULL));
            u64 n = 0;
            try { check_single<SH>(verif::mix64(seed, gi * 100 + decltype(I)::value), rounds, n, cur); }
            catch (verif::Fail const& f) { ev.fail(cur, f.what()); }
            ev.eval(n);
            ev.nontrivial_counter += n;
        }
        mp::mp_for_each<mp::mp_iota_c<M>>([&](auto J) {
            using DH = mp::mp_at_c<G, decltype(J)::value>;
            Case cur;
            cur["@pair"];
            cur.set("group", gi);
            cur.set("sd", {static_cast<i64>(decltype(I)::value), static_cast<i64>(decltype(J)::value)});
            cur.set("seed", static_cast<i64>(seed & 0x7fffffffffffULL));
            u64 n = 0;
            try { check_pair<SH, DH>(verif::mix64(seed, gi * 10000 + decltype(I)::value * 100 + decltype(J)::value), rounds, n, cur); }
            catch (verif::Fail const& f) { ev.fail(cur, f.what()); }
            ev.eval(n);
            ev.nontrivial_counter += (decltype(I)::value != decltype(J)::value) ? n : 0;
            ev.classify(std::string("pairs:") + group_name[gi], 1);
        });
    });
}

void verif_replay(Case const& c)
{
    verif::Evidence ev;
    int gi = static_cast<int>(c.get("group"));
    if (gi < 0 || gi >= NG) throw verif::Fail("bad group");
    // re-run the whole group with the recorded seed (cheap), failures carry their own (pair, round)
    mp::mp_with_index<NG>(static_cast<std::size_t>(gi), [&](auto G) {
        if constexpr (in_part<decltype(G)::value>) run_group<mp::mp_at_c<Groups, decltype(G)::value>>(ev, gi, static_cast<u64>(c.get("seed")), 3000);
        else throw verif::Fail("group not in this binary");
    });
    if (ev.n_failures()) throw verif::Fail(ev.failures[0].second);
}

void verif_run(verif::Args const& a, verif::Evidence& ev)
{
    int rounds = a.thorough() ? 60000 : 3000;
    ev.rule = "11 groups of mutually compatible pixel models (rgb8: rgb/bgr values + planar references of both layouts; rgba8: rgba/bgra/argb/abgr values + planar references incl. argb; rgb565: packed rgb/bgr + bit-aligned references rgb/bgr "
              "at a non-byte-aligned position; rgba8888 packed + bit-aligned rgba/argb; cmyk8; rgb16; rgb32f; rgba16s; devicen<2>, devicen<5>; gray8 value + bit-aligned 8-bit): every ordered pair x seeded channel values: "
              "get_color round trip, dst=src pairs by colour name, ==/!=, single-colour change breaks equality and nothing else, value construction, static_copy/equal/for_each(1,2)/transform(1,2) pair by colour and visit each "
              "channel once; with different values in the two sources, every const/non-const overload of binary static_transform (4), binary (4) and ternary (8) static_for_each and the const one-source forms is handed exactly the by-colour channel tuples (recorded by the operation, compared as sorted lists); per model: semantic_at_c<K> == at_c<mapping[K]> (write through one, read through the other), operator[], raw memory order, static_min/max/generate. "
              "non-trivial: the two models differ (layout or kind); distinct = (group, ordered pair, seeded values).";
    ev.exhaustive = false;
    std::vector<std::thread> thr;
    std::atomic<int> next{0};
    for (int t = 0; t < std::min(a.threads, NG); ++t)
        thr.emplace_back([&] {
            for (;;)
            {
                int gi = next++;
                if (gi >= NG) return;
                mp::mp_with_index<NG>(static_cast<std::size_t>(gi), [&](auto G) {
                    if constexpr (in_part<decltype(G)::value>) run_group<mp::mp_at_c<Groups, decltype(G)::value>>(ev, gi, a.seed, rounds);
                });
            }
        });
    for (auto& t : thr) t.join();
    { Case c; c["@pair"]; c.set("group", 1); c.set("sd", {2, 5}); c.set("seed", static_cast<i64>(a.seed)); c.set("round", 7); ev.sample("{\"what\":\"argb8 value -> planar argb reference\",\"case\":" + c.json() + "}"); }
    { Case c; c["@pair"]; c.set("group", 2); c.set("sd", {1, 2}); c.set("seed", static_cast<i64>(a.seed)); c.set("round", 11); ev.sample("{\"what\":\"packed bgr565 -> bit-aligned rgb565 reference\",\"case\":" + c.json() + "}"); }
    { Case c; c["@single"]; c.set("group", 1); c.set("m", 3); c.set("seed", static_cast<i64>(a.seed)); ev.sample("{\"what\":\"abgr8 value: semantic_at_c vs at_c\",\"case\":" + c.json() + "}"); }
}

VERIF_MAIN(VERIF_TARGET_NAME)
