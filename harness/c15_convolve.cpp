// C15: convolution / correlation equal the textbook sums for every boundary policy.
//
// Oracle: the sums written out directly, dst(i) = sum_k src(i + k - centre) * kernel(k) (correlation) and
// dst(i) = sum_k src(i + centre - k) * kernel(k) (convolution), in 64-bit integers (exact, for integer pixels and kernels) or
// long double (float pixels, stated tolerance), with the out-of-image samples defined by the policy. Source and destination live in
// guard-page buffers of exactly the view's size (the caller's padding of extend_padded is part of the source's root image), so an
// access outside them faults; the destination root is compared as a whole, which also decides "leaves untouched".
#include "common/rcx.hpp"
#include "common/viewlab.hpp"

#include <boost/gil/image_processing/convolve.hpp>
#include <boost/gil/image_processing/kernel.hpp>

namespace gil = boost::gil;
namespace mp = boost::mp11;
using verif::Case;
using verif::i64;
using vl::get_ch;
using vl::nchan;
using vl::set_ch;
using gil::boundary_option;

#ifndef VERIF_TARGET_NAME
#define VERIF_TARGET_NAME "c15_conv"
#endif
#ifndef C15_PART
#define C15_PART -1
#endif

static const boundary_option OPTS[5] = {boundary_option::output_ignore, boundary_option::output_zero, boundary_option::extend_padded, boundary_option::extend_zero, boundary_option::extend_constant};
static const char* opt_name[5] = {"output_ignore", "output_zero", "extend_padded", "extend_zero", "extend_constant"};
enum { OP_IGNORE = 0, OP_ZERO, OP_PADDED, OP_EXT_ZERO, OP_EXT_CONST };

// ------------------------------------------------------------------------------------------------ type combinations
template <class SrcP, class AccP, class DstP, class KT, bool Exact, bool SrcPlanar = false> struct Combo
{
    using src_pixel = SrcP;
    using acc_pixel = AccP;
    using dst_pixel = DstP;
    using kernel_value = KT;
    static constexpr bool exact = Exact;
    static constexpr bool planar = SrcPlanar;
};
using Combos = mp::mp_list<
    Combo<gil::gray8_pixel_t, gil::gray32s_pixel_t, gil::gray32s_pixel_t, int, true>,
    Combo<gil::rgb8_pixel_t, gil::rgb32s_pixel_t, gil::rgb16s_pixel_t, int, true>,
    Combo<gil::gray16_pixel_t, gil::gray32s_pixel_t, gil::gray32s_pixel_t, short, true>,
    Combo<gil::gray32f_pixel_t, gil::gray32f_pixel_t, gil::gray32f_pixel_t, float, false>,
    Combo<gil::rgb32f_pixel_t, gil::rgb32f_pixel_t, gil::rgb32f_pixel_t, float, false>,
    Combo<gil::rgb8_pixel_t, gil::rgb32s_pixel_t, gil::rgb32s_pixel_t, int, true, true>,
    Combo<gil::gray8s_pixel_t, gil::gray32s_pixel_t, gil::gray16s_pixel_t, int, true>>;
constexpr int NCOMBO = static_cast<int>(mp::mp_size<Combos>::value);
static const char* combo_name[NCOMBO] = {"gray8->gray32s (int kernel)", "rgb8->rgb16s (int kernel)", "gray16->gray32s (short kernel)", "gray32f (float kernel)", "rgb32f (float kernel)", "rgb8 planar->rgb32s (int kernel)", "gray8s->gray16s (int kernel)"};
constexpr bool combo_in_part(int i) { return C15_PART < 0 || (i % 4) == (C15_PART % 4); }

// ------------------------------------------------------------------------------------------------ images in guard memory
// root image of pixel type P (interleaved, or planar for rgb8) whose storage ends (or begins) at an inaccessible page
template <class P, bool Planar> struct Root
{
    using view_t = std::conditional_t<Planar, gil::rgb8_planar_view_t, typename gil::type_from_x_iterator<P*>::view_t>;
    verif::GuardBuf buf;
    view_t v;
    Root(i64 w, i64 h, bool guard_end)
    {
        std::size_t bytes = static_cast<std::size_t>(w * h) * sizeof(P);
        buf.reset(bytes, guard_end, 0xA5);
        if constexpr (Planar)
        {
            unsigned char* p = buf.data();
            std::size_t plane = static_cast<std::size_t>(w * h);
            v = gil::planar_rgb_view(w, h, p, p + plane, p + 2 * plane, w);
        }
        else v = gil::interleaved_view(w, h, reinterpret_cast<P*>(buf.data()), w * static_cast<i64>(sizeof(P)));
    }
};

// ------------------------------------------------------------------------------------------------ reference sums
struct Spec
{
    int fn;       // 0 correlate_rows, 1 correlate_cols, 2 convolve_rows, 3 convolve_cols
    bool fixed;   // *_fixed overloads with kernel_1d_fixed
    int opt;
    i64 ksize, centre;
};
static const char* fn_name[4] = {"correlate_rows", "correlate_cols", "convolve_rows", "convolve_cols"};

// value of the source at (x,y) along the filtered axis under the policy; `padded` reads the root around the sub-view
template <class RootView> long double sample(RootView const& root, i64 x0, i64 y0, i64 w, i64 h, i64 x, i64 y, int c, int opt, bool& outside)
{
    outside = x < 0 || x >= w || y < 0 || y >= h;
    if (outside)
    {
        if (opt == OP_EXT_ZERO) return 0;
        if (opt == OP_EXT_CONST) { x = std::min(std::max<i64>(x, 0), w - 1); y = std::min(std::max<i64>(y, 0), h - 1); }
        // OP_PADDED: the root holds the caller's padding; output_* never use the value
        if (opt == OP_IGNORE || opt == OP_ZERO) return 0;
    }
    typename RootView::value_type p = root(x0 + x, y0 + y);
    return static_cast<long double>(get_ch(p, c));
}

template <class C> static void run_1d(Case const& c)
{
    using SP = typename C::src_pixel;
    using AP = typename C::acc_pixel;
    using DP = typename C::dst_pixel;
    using KT = typename C::kernel_value;
    Spec s{static_cast<int>(c.get("fn")) % 4, c.get("fixed") != 0, static_cast<int>(c.get("opt")) % 5, c.get("ksize"), 0};
    if (s.fixed) s.ksize = 1 + 2 * ((s.ksize - 1) / 2 % 4); // 1,3,5,7
    s.centre = c.get("centre") % s.ksize;
    bool cols = (s.fn & 1) != 0, conv = s.fn >= 2;
    i64 w = c.get("w"), h = c.get("h");
    std::uint64_t seed = static_cast<std::uint64_t>(c.get("seed"));
    verif::SplitMix r(seed);
    // kernel
    std::vector<KT> kv(static_cast<std::size_t>(s.ksize));
    for (auto& k : kv)
    {
        if (C::exact) k = static_cast<KT>(static_cast<int>(r.below(13)) - 6);
        else k = static_cast<KT>((static_cast<int>(r.below(2001)) - 1000) / 512.0);
    }
    i64 left = s.centre, right = s.ksize - 1 - s.centre;
    if (conv) std::swap(left, right); // the window of a convolution is the mirrored one
    // source: a sub-view of a root; the padding the caller promises (extend_padded) is exactly what the root has around it,
    // for the other policies the root is the view itself (in guard memory) or has a random margin
    bool margin = s.opt == OP_PADDED || c.get("margin") != 0;
    i64 mx0 = 0, mx1 = 0, my0 = 0, my1 = 0;
    if (s.opt == OP_PADDED) { if (cols) { my0 = left; my1 = right; } else { mx0 = left; mx1 = right; } }
    else if (margin) { mx0 = static_cast<i64>(r.below(3)); mx1 = static_cast<i64>(r.below(3)); my0 = static_cast<i64>(r.below(3)); my1 = static_cast<i64>(r.below(3)); }
    bool guard_end = c.get("guard") != 0;
    Root<SP, C::planar> sroot(w + mx0 + mx1, h + my0 + my1, guard_end);
    for (i64 y = 0; y < sroot.v.height(); ++y)
        for (i64 x = 0; x < sroot.v.width(); ++x)
        {
            auto&& p = sroot.v(x, y);
            for (int k = 0; k < nchan<SP>(); ++k)
            {
                double lo = vl::ch_lo(SP(), k), hi = vl::ch_hi(SP(), k);
                double v;
                if (C::exact) { std::uint64_t rv = r.next(); v = (rv & 7) == 0 ? (rv & 8 ? hi : lo) : lo + static_cast<double>((rv >> 8) % static_cast<std::uint64_t>(hi - lo + 1)); }
                else v = static_cast<double>(static_cast<float>((static_cast<int>(r.below(4001)) - 2000) / 256.0));
                set_ch(p, k, v);
            }
        }
    auto sv = gil::subimage_view(sroot.v, mx0, my0, w, h);
    // destination: exactly w x h in guard memory, pre-filled with a pattern (decides "untouched")
    Root<DP, false> droot(w, h, !guard_end);
    std::vector<long double> before;
    for (i64 y = 0; y < h; ++y)
        for (i64 x = 0; x < w; ++x)
        {
            auto&& p = droot.v(x, y);
            for (int k = 0; k < nchan<DP>(); ++k) { double v = 3 + static_cast<double>(r.below(90)); set_ch(p, k, v); before.push_back(v); }
        }
    std::string what = std::string(fn_name[s.fn]) + (s.fixed ? "_fixed" : "") + " " + opt_name[s.opt] + " kernel size " + std::to_string(s.ksize) + " centre " + std::to_string(s.centre) + " on " + std::to_string(w) + "x" + std::to_string(h);
    boundary_option opt = OPTS[s.opt];
    bool default_opt = s.opt == OP_EXT_ZERO && c.get("defopt") != 0; // the documented default argument
    // ---- call
    if (!s.fixed)
    {
        gil::kernel_1d<KT> kernel(kv.begin(), kv.size(), static_cast<std::size_t>(s.centre));
        VCHECK(static_cast<i64>(kernel.left_size()) == s.centre && static_cast<i64>(kernel.right_size()) == s.ksize - 1 - s.centre && static_cast<i64>(kernel.center()) == s.centre, what, ": kernel bookkeeping");
        switch (s.fn)
        {
        case 0: if (default_opt) gil::correlate_rows<AP>(sv, kernel, droot.v); else gil::correlate_rows<AP>(sv, kernel, droot.v, opt); break;
        case 1: if (default_opt) gil::correlate_cols<AP>(sv, kernel, droot.v); else gil::correlate_cols<AP>(sv, kernel, droot.v, opt); break;
        case 2: if (default_opt) gil::convolve_rows<AP>(sv, kernel, droot.v); else gil::convolve_rows<AP>(sv, kernel, droot.v, opt); break;
        default: if (default_opt) gil::convolve_cols<AP>(sv, kernel, droot.v); else gil::convolve_cols<AP>(sv, kernel, droot.v, opt); break;
        }
        // reversal: size, centre and values
        auto rk = gil::reverse_kernel(kernel);
        VCHECK(rk.size() == kernel.size() && static_cast<i64>(rk.center()) == s.ksize - 1 - s.centre, what, ": reverse_kernel centre ", rk.center());
        for (std::size_t i = 0; i < kv.size(); ++i) VCHECK(rk[i] == kv[kv.size() - 1 - i], what, ": reverse_kernel element ", i);
    }
    else
    {
        mp::mp_with_index<4>(static_cast<std::size_t>((s.ksize - 1) / 2), [&](auto I) {
            constexpr std::size_t N = 2 * decltype(I)::value + 1;
            gil::kernel_1d_fixed<KT, N> kernel(kv.begin(), static_cast<std::size_t>(s.centre));
            VCHECK(kernel.size() == N && static_cast<i64>(kernel.left_size()) == s.centre && static_cast<i64>(kernel.right_size()) == s.ksize - 1 - s.centre, what, ": fixed kernel bookkeeping");
            switch (s.fn)
            {
            case 0: if (default_opt) gil::correlate_rows_fixed<AP>(sv, kernel, droot.v); else gil::correlate_rows_fixed<AP>(sv, kernel, droot.v, opt); break;
            case 1: if (default_opt) gil::correlate_cols_fixed<AP>(sv, kernel, droot.v); else gil::correlate_cols_fixed<AP>(sv, kernel, droot.v, opt); break;
            case 2: if (default_opt) gil::convolve_rows_fixed<AP>(sv, kernel, droot.v); else gil::convolve_rows_fixed<AP>(sv, kernel, droot.v, opt); break;
            default: if (default_opt) gil::convolve_cols_fixed<AP>(sv, kernel, droot.v); else gil::convolve_cols_fixed<AP>(sv, kernel, droot.v, opt); break;
            }
            auto rk = gil::reverse_kernel(kernel);
            VCHECK(static_cast<i64>(rk.center()) == s.ksize - 1 - s.centre, what, ": reverse_kernel (fixed) centre ", rk.center());
            for (std::size_t i = 0; i < kv.size(); ++i) VCHECK(rk[i] == kv[kv.size() - 1 - i], what, ": reverse_kernel (fixed) element ", i);
        });
    }
    // ---- expectation
    std::size_t bi = 0;
    for (i64 y = 0; y < h; ++y)
        for (i64 x = 0; x < w; ++x)
        {
            typename Root<DP, false>::view_t::value_type got = droot.v(x, y);
            i64 pos = cols ? y : x, len = cols ? h : w;
            bool window_leaves = pos - left < 0 || pos + right >= len;
            for (int ch = 0; ch < nchan<DP>(); ++ch, ++bi)
            {
                long double want = 0, mag = 0;
                bool any_outside = false;
                for (i64 k = 0; k < s.ksize; ++k)
                {
                    i64 off = conv ? s.centre - k : k - s.centre;
                    bool outside = false;
                    long double sval = sample(sroot.v, mx0, my0, w, h, cols ? x : x + off, cols ? y + off : y, ch, s.opt, outside);
                    any_outside = any_outside || outside;
                    want += sval * static_cast<long double>(kv[static_cast<std::size_t>(k)]);
                    mag += std::fabs(sval * static_cast<long double>(kv[static_cast<std::size_t>(k)]));
                }
                VCHECK(any_outside == window_leaves, "harness: window bookkeeping");
                if (window_leaves && s.opt == OP_ZERO) want = 0;
                if (window_leaves && s.opt == OP_IGNORE) want = before[bi];
                // a kernel of one tap has no border: every output is the product
                long double g = get_ch(got, ch);
                if (C::exact) VCHECK(g == want, what, ": dst(", x, ",", y, ") channel ", ch, " = ", static_cast<double>(g), ", the sum is ", static_cast<double>(want), (window_leaves ? " (border output)" : " (interior output)"));
                else VCHECK(std::fabs(g - want) <= 1e-5L * (1 + mag), what, ": dst(", x, ",", y, ") channel ", ch, " = ", static_cast<double>(g), ", the sum is ", static_cast<double>(want), (window_leaves ? " (border output)" : " (interior output)"));
            }
        }
}

// ------------------------------------------------------------------------------------------------ convolve_2d (detail) and the padding constructors
template <class C> static void run_2d(Case const& c)
{
    using SP = typename C::src_pixel;
    using DP = typename C::dst_pixel;
    i64 w = c.get("w"), h = c.get("h"), ks = c.get("ksize") % 6 + 1;
    i64 cx = c.get("centre") % ks, cy = c.get("centre2") % ks;
    std::uint64_t seed = static_cast<std::uint64_t>(c.get("seed"));
    verif::SplitMix r(seed);
    bool guard_end = c.get("guard") != 0;
    Root<SP, C::planar> sroot(w, h, guard_end);
    for (i64 y = 0; y < h; ++y)
        for (i64 x = 0; x < w; ++x)
        {
            auto&& p = sroot.v(x, y);
            // small integers: float accumulation stays exact
            for (int k = 0; k < nchan<SP>(); ++k) set_ch(p, k, std::max(vl::ch_lo(SP(), k), static_cast<double>(static_cast<int>(r.below(41)) - (vl::ch_lo(SP(), k) < 0 ? 20 : 0))));
        }
    Root<DP, false> droot(w, h, !guard_end);
    std::vector<float> kv(static_cast<std::size_t>(ks * ks));
    for (auto& k : kv) k = static_cast<float>(static_cast<int>(r.below(9)) - 4);
    gil::detail::kernel_2d<float> kernel(kv.begin(), kv.size(), static_cast<std::size_t>(cy), static_cast<std::size_t>(cx));
    VCHECK(static_cast<i64>(kernel.size()) == ks && static_cast<i64>(kernel.center_x()) == cx && static_cast<i64>(kernel.center_y()) == cy, "kernel_2d bookkeeping");
    VCHECK(static_cast<i64>(kernel.left_size()) == cx && static_cast<i64>(kernel.right_size()) == ks - 1 - cx && static_cast<i64>(kernel.upper_size()) == cy && static_cast<i64>(kernel.lower_size()) == ks - 1 - cy, "kernel_2d sizes");
    gil::detail::convolve_2d(sroot.v, kernel, droot.v);
    for (i64 y = 0; y < h; ++y)
        for (i64 x = 0; x < w; ++x)
        {
            typename DP::value_type* dummy = nullptr; (void)dummy;
            DP got = droot.v(x, y);
            for (int ch = 0; ch < nchan<DP>(); ++ch)
            {
                long double want = 0;
                for (i64 j = 0; j < ks; ++j)
                    for (i64 i = 0; i < ks; ++i)
                    {
                        i64 sx = x + cx - i, sy = y + cy - j;
                        if (sx < 0 || sx >= w || sy < 0 || sy >= h) continue;
                        SP p = sroot.v(sx, sy);
                        want += static_cast<long double>(get_ch(p, ch)) * kv[static_cast<std::size_t>(j * ks + i)];
                    }
                VCHECK(static_cast<long double>(get_ch(got, ch)) == want, "convolve_2d kernel ", ks, "x", ks, " centre (", cx, ",", cy, ") on ", w, "x", h, ": dst(", x, ",", y, ") channel ", ch, " = ", get_ch(got, ch), ", the zero-extended 2-D sum is ", static_cast<double>(want));
            }
        }
}

template <class C> static void run_extend(Case const& c)
{
    using SP = typename C::src_pixel;
    i64 w = c.get("w"), h = c.get("h"), n = c.get("n");
    int which = static_cast<int>(c.get("which")) % 3; // 0 extend_row (rows above/below), 1 extend_col, 2 extend_boundary
    int opt = OP_PADDED + static_cast<int>(c.get("opt")) % 3;
    if (opt == OP_EXT_CONST && (w == 0 || h == 0)) return; // no edge pixel exists: the policy describes nothing
    std::uint64_t seed = static_cast<std::uint64_t>(c.get("seed"));
    verif::SplitMix r(seed);
    bool guard_end = c.get("guard") != 0;
    i64 px = (opt == OP_PADDED && which != 0) ? n : 0, py = (opt == OP_PADDED && which != 1) ? n : 0;
    Root<SP, C::planar> sroot(w + 2 * px, h + 2 * py, guard_end);
    vl::fill_tags(sroot.v, seed);
    auto sv = gil::subimage_view(sroot.v, px, py, w, h);
    gil::image<SP> res = which == 0 ? gil::extend_row(sv, static_cast<std::size_t>(n), OPTS[opt]) : which == 1 ? gil::extend_col(sv, static_cast<std::size_t>(n), OPTS[opt]) : gil::extend_boundary(sv, static_cast<std::size_t>(n), OPTS[opt]);
    i64 ex = which != 0 ? n : 0, ey = which != 1 ? n : 0;
    static const char* wn[3] = {"extend_row", "extend_col", "extend_boundary"};
    std::string what = std::string(wn[which]) + " " + opt_name[opt] + " by " + std::to_string(n) + " on " + std::to_string(w) + "x" + std::to_string(h);
    VCHECK(res.width() == w + 2 * ex && res.height() == h + 2 * ey, what, ": result is ", res.width(), "x", res.height());
    for (i64 y = 0; y < res.height(); ++y)
        for (i64 x = 0; x < res.width(); ++x)
        {
            i64 sx = x - ex, sy = y - ey;
            bool outside = sx < 0 || sx >= w || sy < 0 || sy >= h;
            SP got = gil::const_view(res)(x, y);
            for (int ch = 0; ch < nchan<SP>(); ++ch)
            {
                double want;
                if (outside && opt == OP_EXT_ZERO) want = 0;
                else
                {
                    i64 qx = sx, qy = sy;
                    if (outside && opt == OP_EXT_CONST) { qx = std::min(std::max<i64>(qx, 0), w - 1); qy = std::min(std::max<i64>(qy, 0), h - 1); }
                    SP p = sroot.v(px + qx, py + qy);
                    want = get_ch(p, ch);
                }
                VCHECK(get_ch(got, ch) == want, what, ": result(", x, ",", y, ") channel ", ch, " = ", get_ch(got, ch), ", the policy gives ", want);
            }
        }
}

// ------------------------------------------------------------------------------------------------ dispatch / generators
template <class Fn> static void with_combo(int i, Fn&& fn)
{
    bool ran = false;
    mp::mp_with_index<NCOMBO>(static_cast<std::size_t>(i), [&](auto I) {
        if constexpr (combo_in_part(decltype(I)::value)) { fn(mp::mp_at_c<Combos, decltype(I)::value>()); ran = true; }
    });
    if (!ran) throw verif::Fail("harness: type combination not compiled into this part");
}
static void run_conv(Case const& c) { with_combo(static_cast<int>(c.get("combo")) % NCOMBO, [&](auto C) { run_1d<decltype(C)>(c); }); }
static void run_conv2d(Case const& c)
{
    with_combo(static_cast<int>(c.get("combo")) % NCOMBO, [&](auto C) {
        using CC = decltype(C);
        if constexpr (!CC::planar) run_2d<CC>(c); // nth_channel_view of a planar view is covered by C02; convolve_2d is called on interleaved views
    });
}
static void run_ext(Case const& c) { with_combo(static_cast<int>(c.get("combo")) % NCOMBO, [&](auto C) { run_extend<decltype(C)>(c); }); }

static std::vector<int> part_combos()
{
    std::vector<int> v;
    for (int i = 0; i < NCOMBO; ++i) if (combo_in_part(i)) v.push_back(i);
    return v;
}
static Case gen_conv()
{
    Case c;
    c.set("combo", verif::one_of(part_combos()));
    c.set("fn", verif::pick(0, 3));
    c.set("fixed", verif::coin(35) ? 1 : 0);
    c.set("opt", verif::pick(0, 4));
    i64 ks = verif::weighted({2, 8}) == 0 ? 1 : verif::pick(2, 9);
    c.set("ksize", ks);
    c.set("centre", verif::pick(0, 8));
    c.set("w", verif::weighted({1, 9}) == 0 ? 0 : verif::pick(1, 12));
    c.set("h", verif::weighted({1, 9}) == 0 ? 0 : verif::pick(1, 12));
    c.set("margin", verif::coin(40) ? 1 : 0);
    c.set("guard", verif::coin(50) ? 1 : 0);
    c.set("defopt", verif::coin(30) ? 1 : 0);
    c.set("seed", verif::seed64());
    return c;
}
static Case gen_conv2d()
{
    Case c;
    std::vector<int> pc;
    for (int i : part_combos()) if (i != 5) pc.push_back(i);
    if (pc.empty()) pc.push_back(part_combos().front());
    c.set("combo", verif::one_of(pc));
    c.set("ksize", verif::pick(0, 5)); c.set("centre", verif::pick(0, 5)); c.set("centre2", verif::pick(0, 5));
    c.set("w", verif::pick(0, 9)); c.set("h", verif::pick(0, 9));
    c.set("guard", verif::coin(50) ? 1 : 0);
    c.set("seed", verif::seed64());
    return c;
}
static Case gen_ext()
{
    Case c;
    c.set("combo", verif::one_of(part_combos()));
    c.set("which", verif::pick(0, 2)); c.set("opt", verif::pick(0, 2)); c.set("n", verif::pick(0, 4));
    c.set("w", verif::pick(0, 7)); c.set("h", verif::pick(0, 7));
    c.set("guard", verif::coin(50) ? 1 : 0);
    c.set("seed", verif::seed64());
    return c;
}

void verif_replay(Case const& c)
{
    std::string t = verif::case_target(c);
    if (t == "conv") run_conv(c);
    else if (t == "conv2d") run_conv2d(c);
    else if (t == "extend") run_ext(c);
    else throw verif::Fail("unknown sub-target " + t);
}

void verif_run(verif::Args const& a, verif::Evidence& ev)
{
    bool th = a.thorough();
    std::string combos;
    for (int i : part_combos()) combos += std::string(combos.empty() ? "" : ", ") + combo_name[i];
    ev.rule = "type combinations of this part: " + combos + ". conv: (correlate/convolve x rows/cols, dynamic or fixed-size kernel (1,3,5,7 taps), boundary option (all five, plus the defaulted argument), kernel length 1..9, "
              "EVERY centre position, width and height 0..12 (0 weighted in), source as exact guard-page view / view with margin / view with exactly the promised padding, random kernel and contents incl. channel extremes) "
              "-> every destination channel equals the written-out sum under the policy (64-bit exact for integer combinations, 1e-5 relative for float), border outputs untouched / zero for output_*. "
              "conv2d: detail::convolve_2d against the zero-extended 2-D sum for kernels 1..6 with every centre. extend: extend_row / extend_col / extend_boundary x {padded, zero, constant} x 0..4 pixels on 0..7 x 0..7 views. "
              "non-trivial (conv): the kernel is longer than 1 and the image non-empty; distinct = all keys but the content seed.";
    int n = th ? 1500000 : 30000;
    verif::rc_search(ev, a, "conv", n, 60, gen_conv, run_conv, [](Case const& c) { return c.get("ksize") > 1 && c.get("w") > 0 && c.get("h") > 0; }, {"combo", "fn", "fixed", "opt", "ksize", "centre", "w", "h", "margin", "guard", "defopt"});
    verif::rc_search(ev, a, "conv2d", n / 6, 60, gen_conv2d, run_conv2d, [](Case const& c) { return c.get("w") > 0 && c.get("h") > 0; }, {"combo", "ksize", "centre", "centre2", "w", "h", "guard"});
    verif::rc_search(ev, a, "extend", n / 6, 60, gen_ext, run_ext, [](Case const& c) { return c.get("w") > 0 && c.get("h") > 0 && c.get("n") > 0; }, {"combo", "which", "opt", "n", "w", "h", "guard"});
}

VERIF_MAIN(VERIF_TARGET_NAME)
