// C17: samplers interpolate within bounds and resampling follows the given mapping.
//
//   sample:   for a generated real point, nearest_neighbor_sampler / bilinear_sampler either return false and leave the result untouched, or
//             return a value inside [min,max] of the (clamped) four surrounding source pixels, within truncation distance of the exact bilinear
//             value, equal to the source pixel at integer coordinates. Inside/outside is decided by the documented rule (nearest: the rounded
//             point is a pixel; bilinear: floor(p) in [-1,w-1] x [-1,h-1]). Source in guard-page memory: any read outside faults.
//   resample: resample_pixels(src,dst,map,sampler) leaves every destination pixel equal to sample(src, transform(map,(x,y))) applied to the
//             previous content; resize_view to the same size is the identity.
//   affine:   matrix3x2 algebra against long double arithmetic.
#include "common/rcx.hpp"
#include "common/viewlab.hpp"

#include <boost/gil/extension/numeric/affine.hpp>
#include <boost/gil/extension/numeric/resample.hpp>
#include <boost/gil/extension/numeric/sampler.hpp>

namespace gil = boost::gil;
namespace mp = boost::mp11;
using verif::Case;
using verif::i64;
using vl::get_ch;
using vl::nchan;
using vl::set_ch;

#ifndef VERIF_TARGET_NAME
#define VERIF_TARGET_NAME "c17_sampling"
#endif

using Types = mp::mp_list<gil::gray8_pixel_t, gil::rgb8_pixel_t, gil::gray16_pixel_t, gil::rgba8_pixel_t, gil::gray32f_pixel_t, gil::gray8s_pixel_t>;
constexpr int NT = static_cast<int>(mp::mp_size<Types>::value);
static const char* type_name[NT] = {"gray8", "rgb8", "gray16", "rgba8", "gray32f", "gray8s"};
template <class P> constexpr bool is_float_px() { return std::is_same<typename gil::channel_type<P>::type, gil::float32_t>::value; }

template <class P> struct Root
{
    using view_t = typename gil::type_from_x_iterator<P*>::view_t;
    verif::GuardBuf buf;
    view_t v;
    Root(i64 w, i64 h, bool guard_end, unsigned char fill = 0xA5)
    {
        buf.reset(static_cast<std::size_t>(w * h) * sizeof(P), guard_end, fill);
        v = gil::interleaved_view(w, h, reinterpret_cast<P*>(buf.data()), w * static_cast<i64>(sizeof(P)));
    }
};
template <class View> void fill_kind(View const& v, int kind, std::uint64_t seed)
{
    using P = typename View::value_type;
    verif::SplitMix r(seed);
    for (i64 y = 0; y < v.height(); ++y)
        for (i64 x = 0; x < v.width(); ++x)
        {
            auto&& p = v(x, y);
            for (int k = 0; k < nchan<P>(); ++k)
            {
                double lo = vl::ch_lo(P(), k), hi = vl::ch_hi(P(), k), val;
                std::uint64_t rv = r.next();
                if (kind == 1) val = hi;                       // constant at the channel maximum: the weights have to add up to 1
                else if (kind == 2) val = (rv & 1) ? hi : lo;  // extremes
                else if (kind == 3) val = lo;
                else val = is_float_px<P>() ? static_cast<double>(static_cast<float>(lo + (hi - lo) * static_cast<double>(rv % 1025) / 1024.0)) : lo + static_cast<double>(rv % (static_cast<std::uint64_t>(hi - lo) + 1));
                set_ch(p, k, val);
            }
        }
}
template <class Fn> static void with_type(int t, Fn&& fn) { mp::mp_with_index<NT>(static_cast<std::size_t>(t), [&](auto I) { fn(mp::mp_at_c<Types, decltype(I)::value>()); }); }

// the generated coordinate: a fine grid over [-2, n+1] plus exact integers, half-integers and values next to the decision borders
static double coord(i64 sel, i64 fine, i64 n)
{
    static const double EPS[] = {0.0, 1e-9, -1e-9, 1e-4, -1e-4, 0.5, -0.5, 0.5 - 1e-9, -0.5 + 1e-9, 0.5 + 1e-9, -0.5 - 1e-9};
    i64 base = -2 + (sel % (n + 4));                 // integer in [-2, n+1]
    if (fine >= 0 && fine < 11) return static_cast<double>(base) + EPS[fine];
    return static_cast<double>(base) + static_cast<double>((fine - 11) % 64) / 64.0;
}

// ------------------------------------------------------------------------------------------------ sample
template <class P, class F> static void check_sample(typename Root<P>::view_t const& src, int sampler, F px, F py, std::string const& what)
{
    i64 w = src.width(), h = src.height();
    P sentinel;
    for (int k = 0; k < nchan<P>(); ++k) set_ch(sentinel, k, is_float_px<P>() ? 0.3125 : 77);
    P result = sentinel;
    gil::point<F> p(px, py);
    bool got = sampler == 0 ? gil::sample(gil::nearest_neighbor_sampler(), src, p, result) : gil::sample(gil::bilinear_sampler(), src, p, result);
    long double X = static_cast<long double>(px), Y = static_cast<long double>(py);
    if (sampler == 0)
    {
        // round half away from zero (utilities.hpp: iround)
        auto rnd = [](long double v) { return static_cast<i64>(v < 0 ? std::ceil(v - 0.5L) : std::floor(v + 0.5L)); };
        // iround computes in F: a point within one ulp of a half-way value may land on either side, so both are accepted there
        i64 cx = rnd(X), cy = rnd(Y);
        i64 lx = static_cast<i64>(gil::iround(px)), ly = static_cast<i64>(gil::iround(py));
        bool tie_x = std::fabs(std::fabs(X - std::trunc(X)) - 0.5L) < 1e-6L, tie_y = std::fabs(std::fabs(Y - std::trunc(Y)) - 0.5L) < 1e-6L;
        if (!tie_x) VCHECK(lx == cx, what, ": iround(", static_cast<double>(px), ") = ", lx);
        if (!tie_y) VCHECK(ly == cy, what, ": iround(", static_cast<double>(py), ") = ", ly);
        VCHECK(std::fabs(static_cast<long double>(lx) - X) <= 0.5L + 1e-6L && std::fabs(static_cast<long double>(ly) - Y) <= 0.5L + 1e-6L, what, ": rounded point is not the nearest pixel");
        bool inside = lx >= 0 && ly >= 0 && lx < w && ly < h;
        VCHECK(got == inside, what, ": returned ", got, " for a point whose nearest pixel (", lx, ",", ly, ") is ", (inside ? "inside" : "outside"));
        if (inside) { P want = src(lx, ly); VCHECK(result == want, what, ": result is not the nearest source pixel (", lx, ",", ly, ")"); }
        else VCHECK(result == sentinel, what, ": point reported outside but the result was written");
        return;
    }
    i64 fx = static_cast<i64>(std::floor(X)), fy = static_cast<i64>(std::floor(Y));
    bool inside = !(fx < -1 || fy < -1 || fx >= w || fy >= h);
    VCHECK(got == inside, what, ": returned ", got, " for floor(p) = (", fx, ",", fy, ") on ", w, "x", h);
    if (!inside) { VCHECK(result == sentinel, what, ": point reported outside but the result was written"); return; }
    i64 x0 = std::min(std::max<i64>(fx, 0), w - 1), x1 = std::min(std::max<i64>(fx + 1, 0), w - 1);
    i64 y0 = std::min(std::max<i64>(fy, 0), h - 1), y1 = std::min(std::max<i64>(fy + 1, 0), h - 1);
    long double tx = X - fx, ty = Y - fy;
    bool integer_point = tx == 0 && ty == 0 && fx >= 0 && fy >= 0;
    for (int k = 0; k < nchan<P>(); ++k)
    {
        P p00 = src(x0, y0), p10 = src(x1, y0), p01 = src(x0, y1), p11 = src(x1, y1);
        long double a = get_ch(p00, k), b = get_ch(p10, k), c = get_ch(p01, k), d = get_ch(p11, k);
        long double lo = std::min(std::min(a, b), std::min(c, d)), hi = std::max(std::max(a, b), std::max(c, d));
        long double exact = a * (1 - tx) * (1 - ty) + b * tx * (1 - ty) + c * (1 - tx) * ty + d * tx * ty;
        long double g = get_ch(result, k);
        if (integer_point) VCHECK(g == a, what, ": at the integer point (", fx, ",", fy, ") channel ", k, " = ", static_cast<double>(g), ", the source pixel has ", static_cast<double>(a));
        long double slack = is_float_px<P>() ? 1e-5L : 0;
        VCHECK(g >= lo - slack && g <= hi + slack, what, ": channel ", k, " = ", static_cast<double>(g), " is outside [", static_cast<double>(lo), ",", static_cast<double>(hi), "] of the surrounding pixels (", x0, "..", x1, ",", y0, "..", y1,
               "): not a convex combination");
        long double tol = is_float_px<P>() ? 1e-5L : 1.0L + 1e-3L * (hi - lo + 1) * (sizeof(F) == 4 ? 1 : 1e-6L);
        VCHECK(std::fabs(g - exact) <= tol, what, ": channel ", k, " = ", static_cast<double>(g), ", bilinear interpolation gives ", static_cast<double>(exact));
    }
}

static void run_sample(Case const& c)
{
    with_type(static_cast<int>(c.get("type")) % NT, [&](auto PT) {
        using P = decltype(PT);
        i64 w = c.get("w"), h = c.get("h");
        Root<P> src(w, h, c.get("guard") != 0);
        fill_kind(src.v, static_cast<int>(c.get("kind")) % 4, static_cast<std::uint64_t>(c.get("seed")));
        int sampler = static_cast<int>(c.get("sampler")) % 2;
        double x = coord(c.get("xsel"), c.get("xfine"), w), y = coord(c.get("ysel"), c.get("yfine"), h);
        std::string what = std::string(type_name[static_cast<int>(c.get("type")) % NT]) + (sampler ? " bilinear" : " nearest") + " sample at (" + std::to_string(x) + "," + std::to_string(y) + ") of " + std::to_string(w) + "x" + std::to_string(h);
        if (c.get("flt") != 0) check_sample<P, float>(src.v, sampler, static_cast<float>(x), static_cast<float>(y), what + " [float]");
        else check_sample<P, double>(src.v, sampler, x, y, what);
    });
}

// ------------------------------------------------------------------------------------------------ resample
static gil::matrix3x2<double> gen_matrix(Case const& c)
{
    auto const& m = c.list("mat");
    int kind = static_cast<int>(m.at(0)) % 5;
    double a = static_cast<double>(m.at(1)) / 8.0, b = static_cast<double>(m.at(2)) / 8.0, t1 = static_cast<double>(m.at(3)) / 4.0, t2 = static_cast<double>(m.at(4)) / 4.0;
    using M = gil::matrix3x2<double>;
    switch (kind)
    {
    case 0: return M();
    case 1: return M::get_translate(t1, t2);
    case 2: return M::get_scale(a == 0 ? 1 : a, b == 0 ? 0.5 : b) * M::get_translate(t1, t2);
    case 3: return M::get_rotate(a) * M::get_translate(t1, t2);
    default: return M::get_translate(-t1, -t2) * M::get_rotate(b) * M::get_scale(a == 0 ? 1.5 : a) * M::get_translate(t2, t1);
    }
}
static void run_resample(Case const& c)
{
    with_type(static_cast<int>(c.get("type")) % NT, [&](auto PT) {
        using P = decltype(PT);
        i64 w = c.get("w"), h = c.get("h"), dw = c.get("dw"), dh = c.get("dh");
        bool ge = c.get("guard") != 0;
        std::uint64_t seed = static_cast<std::uint64_t>(c.get("seed"));
        Root<P> src(w, h, ge), dst(dw, dh, !ge), twin(dw, dh, ge);
        fill_kind(src.v, static_cast<int>(c.get("kind")) % 4, seed);
        fill_kind(dst.v, 0, seed ^ 0x31);
        gil::copy_pixels(dst.v, twin.v);
        int sampler = static_cast<int>(c.get("sampler")) % 2;
        auto mat = gen_matrix(c);
        std::string what = std::string(type_name[static_cast<int>(c.get("type")) % NT]) + (sampler ? " bilinear" : " nearest") + " resample_pixels " + std::to_string(w) + "x" + std::to_string(h) + " -> " + std::to_string(dw) + "x" + std::to_string(dh);
        if (sampler == 0) gil::resample_pixels(src.v, dst.v, mat, gil::nearest_neighbor_sampler()); else gil::resample_pixels(src.v, dst.v, mat, gil::bilinear_sampler());
        long written = 0;
        for (i64 y = 0; y < dh; ++y)
            for (i64 x = 0; x < dw; ++x)
            {
                P want = twin.v(x, y);
                gil::point<double> sp = gil::transform(mat, gil::point_t(x, y));
                // the documented mapping: row vector times matrix
                long double ex = static_cast<long double>(mat.a) * x + static_cast<long double>(mat.c) * y + mat.e, ey = static_cast<long double>(mat.b) * x + static_cast<long double>(mat.d) * y + mat.f;
                VCHECK(std::fabs(sp.x - ex) <= 1e-9L * (1 + std::fabs(ex)) && std::fabs(sp.y - ey) <= 1e-9L * (1 + std::fabs(ey)), what, ": transform(map,(", x, ",", y, ")) = (", sp.x, ",", sp.y, ")");
                bool in = sampler == 0 ? gil::sample(gil::nearest_neighbor_sampler(), src.v, sp, want) : gil::sample(gil::bilinear_sampler(), src.v, sp, want);
                written += in;
                P got = dst.v(x, y);
                VCHECK(got == want, what, ": dst(", x, ",", y, ") differs from sample(src, transform(map,(x,y))) = sample at (", sp.x, ",", sp.y, "), which ", (in ? "is inside" : "is outside (pixel must stay untouched)"));
            }
        (void)written;
        // resize_view to the same size is the identity
        if (w > 0 && h > 0)
        {
            Root<P> same(w, h, !ge, 0x5C);
            if (sampler == 0) gil::resize_view(src.v, same.v, gil::nearest_neighbor_sampler()); else gil::resize_view(src.v, same.v, gil::bilinear_sampler());
            for (i64 y = 0; y < h; ++y)
                for (i64 x = 0; x < w; ++x) { P a = src.v(x, y), b = same.v(x, y); VCHECK(a == b, what, ": resize_view to the same size changed pixel (", x, ",", y, ")"); }
        }
    });
}

// ------------------------------------------------------------------------------------------------ affine algebra
struct LM { long double a, b, c, d, e, f; };
static LM mul(LM const& m1, LM const& m2) { return LM{m1.a * m2.a + m1.b * m2.c, m1.a * m2.b + m1.b * m2.d, m1.c * m2.a + m1.d * m2.c, m1.c * m2.b + m1.d * m2.d, m1.e * m2.a + m1.f * m2.c + m2.e, m1.e * m2.b + m1.f * m2.d + m2.f}; }
template <class T> static LM lm(gil::matrix3x2<T> const& m) { return LM{m.a, m.b, m.c, m.d, m.e, m.f}; }
template <class T> static void near_m(gil::matrix3x2<T> const& got, LM const& want, long double tol, std::string const& what)
{
    LM g = lm(got);
    long double const* pg = &g.a;
    long double const* pw = &want.a;
    for (int i = 0; i < 6; ++i) VCHECK(std::fabs(pg[i] - pw[i]) <= tol, what, ": element ", i, " = ", static_cast<double>(pg[i]), ", expected ", static_cast<double>(pw[i]));
}
template <class T> static void run_affine_t(Case const& c)
{
    using M = gil::matrix3x2<T>;
    auto const& v = c.list("vals");
    auto val = [&](std::size_t i) { return static_cast<T>(static_cast<double>(v.at(i)) / 16.0); };
    long double eps = sizeof(T) == 4 ? 2e-4L : 1e-11L;
    M A(val(0), val(1), val(2), val(3), val(4), val(5)), B(val(6), val(7), val(8), val(9), val(10), val(11)), C(val(12), val(13), val(14), val(15), val(16), val(17));
    // product against the documented row-vector convention, associativity, operator*=
    near_m(A * B, mul(lm(A), lm(B)), eps * 200, "A*B");
    near_m((A * B) * C, mul(mul(lm(A), lm(B)), lm(C)), eps * 4000, "(A*B)*C");
    near_m(A * (B * C), mul(mul(lm(A), lm(B)), lm(C)), eps * 4000, "A*(B*C)");
    { M D(A); D *= B; near_m(D, mul(lm(A), lm(B)), eps * 200, "A*=B"); }
    near_m(M() * A, lm(A), 0, "I*A");
    near_m(A * M(), lm(A), 0, "A*I");
    // factories
    T tx = val(18), ty = val(19), sx = val(20), sy = val(21), ang = val(22);
    near_m(M::get_translate(tx, ty), LM{1, 0, 0, 1, tx, ty}, 0, "get_translate(x,y)");
    near_m(M::get_translate(gil::point<T>(tx, ty)), LM{1, 0, 0, 1, tx, ty}, 0, "get_translate(point)");
    near_m(M::get_scale(sx, sy), LM{sx, 0, 0, sy, 0, 0}, 0, "get_scale(x,y)");
    near_m(M::get_scale(gil::point<T>(sx, sy)), LM{sx, 0, 0, sy, 0, 0}, 0, "get_scale(point)");
    near_m(M::get_scale(sx), LM{sx, 0, 0, sx, 0, 0}, 0, "get_scale(s)");
    long double cs = std::cos(static_cast<long double>(ang)), sn = std::sin(static_cast<long double>(ang));
    near_m(M::get_rotate(ang), LM{cs, sn, -sn, cs, 0, 0}, eps, "get_rotate");
    // composition acts left to right on points: p * (T*S*R) = ((p*T)*S)*R
    gil::point<T> p(val(23), val(24));
    gil::point<T> q = gil::transform(M::get_translate(tx, ty) * M::get_scale(sx, sy) * M::get_rotate(ang), p);
    long double x1 = (static_cast<long double>(p.x) + tx) * sx, y1 = (static_cast<long double>(p.y) + ty) * sy;
    long double x2 = x1 * cs - y1 * sn, y2 = x1 * sn + y1 * cs;
    VCHECK(std::fabs(q.x - x2) <= eps * 4000 && std::fabs(q.y - y2) <= eps * 4000, "translate*scale*rotate applied to a point: (", static_cast<double>(q.x), ",", static_cast<double>(q.y), ") expected (", static_cast<double>(x2), ",", static_cast<double>(y2), ")");
    gil::point<T> pa = p * A;
    VCHECK(std::fabs(pa.x - (static_cast<long double>(A.a) * p.x + static_cast<long double>(A.c) * p.y + A.e)) <= eps * 200 && std::fabs(pa.y - (static_cast<long double>(A.b) * p.x + static_cast<long double>(A.d) * p.y + A.f)) <= eps * 200, "point * matrix");
    gil::point<std::ptrdiff_t> ip(static_cast<std::ptrdiff_t>(v.at(23)), static_cast<std::ptrdiff_t>(v.at(24)));
    gil::point<T> ipa = gil::transform(A, ip);
    VCHECK(std::fabs(ipa.x - (static_cast<long double>(A.a) * ip.x + static_cast<long double>(A.c) * ip.y + A.e)) <= eps * 4000 && std::fabs(ipa.y - (static_cast<long double>(A.b) * ip.x + static_cast<long double>(A.d) * ip.y + A.f)) <= eps * 4000, "transform(matrix, integer point)");
    // inverse for well-conditioned matrices
    long double det = static_cast<long double>(A.a) * A.d - static_cast<long double>(A.b) * A.c;
    if (std::fabs(det) >= 0.25L)
    {
        M inv = gil::inverse(A);
        long double scale = 1 + 400 / std::fabs(det);
        near_m(inv * A, LM{1, 0, 0, 1, 0, 0}, eps * 4000 * scale, "inverse(A)*A");
        near_m(A * inv, LM{1, 0, 0, 1, 0, 0}, eps * 4000 * scale, "A*inverse(A)");
        gil::point<T> back = gil::transform(inv, gil::transform(A, p));
        VCHECK(std::fabs(back.x - p.x) <= eps * 40000 * scale && std::fabs(back.y - p.y) <= eps * 40000 * scale, "a point mapped by A and by inverse(A) comes back to (", static_cast<double>(back.x), ",", static_cast<double>(back.y), ") instead of (", static_cast<double>(p.x), ",", static_cast<double>(p.y), ")");
    }
}
static void run_affine(Case const& c)
{
    if (c.get("flt") != 0) run_affine_t<float>(c); else run_affine_t<double>(c);
    // rounding helpers
    auto const& v = c.list("vals");
    for (std::size_t i = 0; i < v.size(); ++i)
        for (double d : {static_cast<double>(v[i]) / 16.0, static_cast<double>(v[i]) / 2.0, static_cast<double>(v[i]) / 2.0 + 1e-9, static_cast<double>(v[i]) / 2.0 - 1e-9})
        {
            VCHECK(gil::ifloor(d) == static_cast<std::ptrdiff_t>(std::floor(d)) && gil::iceil(d) == static_cast<std::ptrdiff_t>(std::ceil(d)), "ifloor/iceil(", d, ")");
            long double want = d < 0 ? std::ceil(static_cast<long double>(d) - 0.5L) : std::floor(static_cast<long double>(d) + 0.5L);
            VCHECK(gil::iround(d) == static_cast<std::ptrdiff_t>(want), "iround(", d, ") = ", gil::iround(d), ", round-half-away gives ", static_cast<double>(want));
            float f = static_cast<float>(d);
            VCHECK(gil::ifloor(f) == static_cast<std::ptrdiff_t>(std::floor(f)) && gil::iceil(f) == static_cast<std::ptrdiff_t>(std::ceil(f)), "ifloor/iceil(float ", f, ")");
            gil::point<double> pd(d, -d);
            VCHECK(gil::iround(pd) == gil::point_t(gil::iround(d), gil::iround(-d)) && gil::ifloor(pd) == gil::point_t(gil::ifloor(d), gil::ifloor(-d)) && gil::iceil(pd) == gil::point_t(gil::iceil(d), gil::iceil(-d)), "point rounding helpers at ", d);
        }
}

// ------------------------------------------------------------------------------------------------ generators
static Case gen_sample()
{
    Case c;
    c.set("type", verif::pick(0, NT - 1));
    c.set("w", verif::weighted({3, 7}) == 0 ? 1 : verif::pick(1, 6)); c.set("h", verif::weighted({3, 7}) == 0 ? 1 : verif::pick(1, 6));
    c.set("kind", verif::pick(0, 3)); c.set("guard", verif::coin(50) ? 1 : 0); c.set("sampler", verif::pick(0, 1)); c.set("flt", verif::coin(30) ? 1 : 0);
    c.set("xsel", verif::pick(0, 9)); c.set("ysel", verif::pick(0, 9));
    c.set("xfine", verif::coin(55) ? verif::pick(0, 10) : verif::pick(11, 74)); c.set("yfine", verif::coin(55) ? verif::pick(0, 10) : verif::pick(11, 74));
    c.set("seed", verif::seed64());
    return c;
}
static Case gen_resample()
{
    Case c;
    c.set("type", verif::pick(0, NT - 1));
    c.set("w", verif::pick(1, 6)); c.set("h", verif::pick(1, 6)); c.set("dw", verif::pick(0, 7)); c.set("dh", verif::pick(0, 7));
    c.set("kind", verif::pick(0, 3)); c.set("guard", verif::coin(50) ? 1 : 0); c.set("sampler", verif::pick(0, 1));
    c.set("mat", {verif::pick(0, 4), verif::pick(-24, 24), verif::pick(-24, 24), verif::pick(-16, 16), verif::pick(-16, 16)});
    c.set("seed", verif::seed64());
    return c;
}
static Case gen_affine()
{
    Case c;
    std::vector<i64> v;
    for (int i = 0; i < 25; ++i) v.push_back(verif::coin(15) ? verif::one_of<i64>({0, 16, -16}) : verif::pick(-96, 96));
    c.set("vals", v);
    c.set("flt", verif::coin(40) ? 1 : 0);
    return c;
}

void verif_replay(Case const& c)
{
    std::string t = verif::case_target(c);
    if (t == "sample") run_sample(c);
    else if (t == "resample") run_resample(c);
    else if (t == "affine") run_affine(c);
    else throw verif::Fail("unknown sub-target " + t);
}

void verif_run(verif::Args const& a, verif::Evidence& ev)
{
    bool th = a.thorough();
    ev.rule = "pixel types gray8, rgb8, gray16, rgba8, gray32f, gray8s; source shapes 1..6 (1 weighted in), contents {random, constant at the channel maximum, extremes, constant minimum}. sample: point = integer in [-2,n+1] plus "
              "{0, +-1e-9, +-1e-4, +-0.5, +-(0.5 +- 1e-9)} or a 1/64 grid, both samplers, float and double points -> inside/outside by the documented rule, result untouched when outside, inside [min,max] of the clamped four "
              "neighbours, within truncation distance of exact bilinear, exact at integer points. resample: identity/translation/scale/rotation/composed maps, destination 0..7 -> every destination pixel equals sample() at the mapped "
              "point applied to its previous content; resize_view to the same size is the identity. affine: products, associativity, factories, left-to-right composition on points, inverse for |det| >= 0.25, iround/ifloor/iceil. "
              "non-trivial (sample): the point is inside per the rule of its sampler; distinct = all keys but the content seed.";
    int n = th ? 1500000 : 40000;
    verif::rc_search(ev, a, "sample", n, 60, gen_sample, run_sample, [](Case const& c) {
        double x = coord(c.get("xsel"), c.get("xfine"), c.get("w")), y = coord(c.get("ysel"), c.get("yfine"), c.get("h"));
        return x >= -1 && y >= -1 && x < static_cast<double>(c.get("w")) && y < static_cast<double>(c.get("h"));
    }, {"type", "w", "h", "kind", "guard", "sampler", "flt", "xsel", "ysel", "xfine", "yfine"});
    verif::rc_search(ev, a, "resample", n / 4, 60, gen_resample, run_resample, [](Case const& c) { return c.get("dw") > 0 && c.get("dh") > 0; }, {"type", "w", "h", "dw", "dh", "kind", "guard", "sampler", "mat"});
    verif::rc_search(ev, a, "affine", n / 4, 60, gen_affine, run_affine, [](Case const&) { return true; }, {"vals", "flt"});
}

VERIF_MAIN(VERIF_TARGET_NAME)
