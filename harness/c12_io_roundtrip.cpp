// C12 — writing a view and reading it back reproduces it for every lossless format (bounded error for JPEG).
// Engine: rapidcheck (format x pixel type from the format's write-support table, w,h in 1..N, view organisation, contents kind,
// destination kind, writer options). Oracle: round trip read_image == source view pixel-by-pixel; cross-device byte identity of the files.
#define BOOST_GIL_IO_ENABLE_GRAY_ALPHA
#include "common/rcx.hpp"
#include "common/viewlab.hpp"

#include <boost/gil/extension/io/bmp.hpp>
#include <boost/gil/extension/io/jpeg.hpp>
#include <boost/gil/extension/io/png.hpp>
#include <boost/gil/extension/io/pnm.hpp>
#include <boost/gil/extension/io/targa.hpp>
#include <boost/gil/extension/io/tiff.hpp>
#include <boost/gil/extension/toolbox/color_spaces/gray_alpha.hpp>

#include <fstream>
#include <sstream>

namespace gil = boost::gil;
using namespace vl;

static bool g_known_tiff_alpha = false;
static std::string g_tmpdir = ".";

enum Fmt { F_BMP = 0, F_PNM, F_TARGA, F_PNG, F_TIFF, F_JPEG };
static const char* fmt_name[] = {"bmp", "pnm", "targa", "png", "tiff", "jpeg"};

using g1_t = gil::bit_aligned_image1_type<1, gil::gray_layout_t>::type;
using g2_t = gil::bit_aligned_image1_type<2, gil::gray_layout_t>::type;
using g4_t = gil::bit_aligned_image1_type<4, gil::gray_layout_t>::type;

template <int F, class Img> struct Entry { static constexpr int fmt = F; using image_t = Img; };
using Entries = mp::mp_list<
    /* 0*/ Entry<F_BMP, gil::rgb8_image_t>, /* 1*/ Entry<F_BMP, gil::rgba8_image_t>,
    /* 2*/ Entry<F_PNM, g1_t>, /* 3*/ Entry<F_PNM, gil::gray8_image_t>, /* 4*/ Entry<F_PNM, gil::rgb8_image_t>,
    /* 5*/ Entry<F_TARGA, gil::rgb8_image_t>, /* 6*/ Entry<F_TARGA, gil::rgba8_image_t>,
    /* 7*/ Entry<F_PNG, g1_t>, /* 8*/ Entry<F_PNG, g2_t>, /* 9*/ Entry<F_PNG, g4_t>, /*10*/ Entry<F_PNG, gil::gray8_image_t>, /*11*/ Entry<F_PNG, gil::gray16_image_t>,
    /*12*/ Entry<F_PNG, gil::gray_alpha8_image_t>, /*13*/ Entry<F_PNG, gil::gray_alpha16_image_t>, /*14*/ Entry<F_PNG, gil::rgb8_image_t>, /*15*/ Entry<F_PNG, gil::rgb16_image_t>,
    /*16*/ Entry<F_PNG, gil::rgba8_image_t>, /*17*/ Entry<F_PNG, gil::rgba16_image_t>,
    /*18*/ Entry<F_TIFF, g1_t>, /*19*/ Entry<F_TIFF, g2_t>, /*20*/ Entry<F_TIFF, g4_t>, /*21*/ Entry<F_TIFF, gil::gray8_image_t>, /*22*/ Entry<F_TIFF, gil::gray16_image_t>,
    /*23*/ Entry<F_TIFF, gil::gray32_image_t>, /*24*/ Entry<F_TIFF, gil::gray32f_image_t>, /*25*/ Entry<F_TIFF, gil::rgb8_image_t>, /*26*/ Entry<F_TIFF, gil::rgb16_image_t>,
    /*27*/ Entry<F_TIFF, gil::rgb32f_image_t>, /*28*/ Entry<F_TIFF, gil::rgba8_image_t>, /*29*/ Entry<F_TIFF, gil::cmyk8_image_t>, /*30*/ Entry<F_TIFF, gil::rgb8_planar_image_t>,
    /*31*/ Entry<F_TIFF, gil::rgba16_image_t>, /*32*/ Entry<F_TIFF, gil::cmyk16_image_t>,
    /*33*/ Entry<F_JPEG, gil::gray8_image_t>, /*34*/ Entry<F_JPEG, gil::rgb8_image_t>, /*35*/ Entry<F_JPEG, gil::cmyk8_image_t>,
    // pixel types with another channel order or planar storage: supported by the same tables (colour space and channel type decide)
    /*36*/ Entry<F_BMP, gil::bgr8_image_t>, /*37*/ Entry<F_BMP, gil::abgr8_image_t>, /*38*/ Entry<F_PNM, gil::bgr8_image_t>, /*39*/ Entry<F_TARGA, gil::bgr8_image_t>,
    /*40*/ Entry<F_TARGA, gil::argb8_image_t>, /*41*/ Entry<F_PNG, gil::bgr8_image_t>, /*42*/ Entry<F_PNG, gil::abgr8_image_t>, /*43*/ Entry<F_PNG, gil::rgb8_planar_image_t>,
    /*44*/ Entry<F_TIFF, gil::bgr8_image_t>, /*45*/ Entry<F_TIFF, gil::argb8_image_t>, /*46*/ Entry<F_BMP, gil::rgb8_planar_image_t>, /*47*/ Entry<F_TARGA, gil::rgba8_planar_image_t>,
    /*48*/ Entry<F_PNM, gil::rgb8_planar_image_t>, /*49*/ Entry<F_TIFF, gil::bgra8_image_t>, /*50*/ Entry<F_PNG, gil::bgra8_image_t>, /*51*/ Entry<F_JPEG, gil::bgr8_image_t>>;
constexpr int NE = static_cast<int>(mp::mp_size<Entries>::value);

enum Org { O_WHOLE = 0, O_SUB, O_STEP, O_FLIP, O_TRANSPOSED, O_COUNT };
enum Dest { D_NAME = 0, D_FILE, D_STREAM };
enum Content { CT_RANDOM = 0, CT_GRADIENT, CT_CONST, CT_CHECKER };

template <class Tag> struct TagOf;
template <int F> struct FmtTag;
template <> struct FmtTag<F_BMP> { using type = gil::bmp_tag; static const char* ext() { return ".bmp"; } };
template <> struct FmtTag<F_PNM> { using type = gil::pnm_tag; static const char* ext() { return ".pnm"; } };
template <> struct FmtTag<F_TARGA> { using type = gil::targa_tag; static const char* ext() { return ".tga"; } };
template <> struct FmtTag<F_PNG> { using type = gil::png_tag; static const char* ext() { return ".png"; } };
template <> struct FmtTag<F_TIFF> { using type = gil::tiff_tag; static const char* ext() { return ".tif"; } };
template <> struct FmtTag<F_JPEG> { using type = gil::jpeg_tag; static const char* ext() { return ".jpg"; } };

template <class View> static void fill_content(View const& v, int kind, std::uint64_t seed)
{
    using P = typename View::value_type;
    P cst;
    for (int k = 0; k < nchan<P>(); ++k) set_ch(cst, k, tag_in_range(tag_hash(seed, 1, 2, k), ch_lo(cst, k), ch_hi(cst, k), ch_is_float(cst, k)));
    for (i64 y = 0; y < v.height(); ++y)
        for (i64 x = 0; x < v.width(); ++x)
        {
            auto&& p = v(x, y);
            for (int k = 0; k < nchan<P>(); ++k)
            {
                double lo = ch_lo(p, k), hi = ch_hi(p, k);
                bool isf = ch_is_float(p, k);
                double val;
                switch (kind)
                {
                case CT_RANDOM: val = tag_for(p, seed, x, y, k); break;
                case CT_GRADIENT: { double t = (v.width() + v.height() > 2) ? double(x + y) / double(v.width() + v.height() - 2) : 0.0; val = isf ? double(float(t)) : lo + std::floor(t * (hi - lo)); break; }
                case CT_CONST: val = get_ch(cst, k); break;
                default: val = ((x + y) & 1) ? hi : lo; break;
                }
                set_ch(p, k, val);
            }
        }
}

static std::string slurp(std::string const& path)
{
    std::ifstream f(path, std::ios::binary);
    std::ostringstream ss;
    ss << f.rdbuf();
    return ss.str();
}
static std::string tmp_name(const char* ext, int n)
{
    return g_tmpdir + "/c12_" + std::to_string(static_cast<long>(::getpid())) + "_" + std::to_string(n) + ext;
}

template <int F, class Img> struct RT
{
    using tag_t = typename FmtTag<F>::type;
    using Pix = typename Img::value_type;
    static constexpr bool has_alpha = mp::mp_contains<typename gil::color_space_type<typename Img::view_t>::type, gil::alpha_t>::value;

    static gil::image_write_info<tag_t> make_info(Case const& c)
    {
        gil::image_write_info<tag_t> info;
        if constexpr (F == F_TIFF)
        {
            int comp = static_cast<int>(c.get("opt", 0, 0) % 4);
            info._compression = comp == 0 ? COMPRESSION_NONE : comp == 1 ? COMPRESSION_LZW : comp == 2 ? COMPRESSION_ADOBE_DEFLATE : COMPRESSION_PACKBITS;
            bool tiled = (c.get("opt", 0, 1) % 3) != 0 ? false : true;
            info._is_tiled = tiled;
            int ts = (c.get("opt", 0, 2) & 1) ? 32 : 16;
            info._tile_width = ts;
            info._tile_length = (c.get("opt", 0, 2) & 2) ? 32 : 16;
        }
        else if constexpr (F == F_JPEG) { info._quality = 100; }
        return info;
    }

    template <class View, class Dst> static void do_write(Dst&& dst, View const& v, gil::image_write_info<tag_t> const& info) { gil::write_view(dst, v, info); }

    template <class View> static void round_trip(View const& v, Case const& c, i64 w, i64 h)
    {
        auto info = make_info(c);
        int dest = static_cast<int>(c.get("dest"));
        std::string name = tmp_name(FmtTag<F>::ext(), 0), name2 = tmp_name(FmtTag<F>::ext(), 1);
        // primary destination
        std::string bytes;
        if (dest == D_FILE && F != F_TIFF)
        {
            if constexpr (F != F_TIFF)
            {
                FILE* f = std::fopen(name.c_str(), "wb");
                VCHECK(f != nullptr, "cannot create temp file");
                do_write(f, v, info); // the device adopts the FILE* and closes it
            }
            bytes = slurp(name);
        }
        else if (dest == D_STREAM)
        {
            std::ostringstream os(std::ios::out | std::ios::binary);
            do_write(os, v, info);
            bytes = os.str();
            std::ofstream f(name, std::ios::binary);
            f.write(bytes.data(), static_cast<std::streamsize>(bytes.size()));
        }
        else
        {
            do_write(name, v, info);
            bytes = slurp(name);
        }
        VCHECK(!bytes.empty(), "writer produced an empty file");
        // the destination kind must not matter: when asked, the read-back below uses the file produced through ANOTHER destination kind
        if (c.get("xdev") != 0)
        {
            if (dest == D_STREAM) { do_write(name, v, info); bytes = slurp(name); }
            else
            {
                std::ostringstream os(std::ios::out | std::ios::binary);
                do_write(os, v, info);
                bytes = os.str();
                std::ofstream f(name, std::ios::binary);
                f.write(bytes.data(), static_cast<std::streamsize>(bytes.size()));
            }
            VCHECK(!bytes.empty(), "writer produced an empty file (second destination)");
        }
        // read back, through a device kind chosen by the case
        Img back;
        int rdev = static_cast<int>(c.get("rdev"));
        if (rdev == D_STREAM) { std::istringstream is(bytes, std::ios::in | std::ios::binary); gil::read_image(is, back, tag_t()); }
        else if (rdev == D_FILE && F != F_TIFF)
        {
            if constexpr (F != F_TIFF)
            {
                FILE* f = std::fopen(name.c_str(), "rb");
                VCHECK(f != nullptr, "cannot reopen temp file");
                gil::read_image(f, back, tag_t()); // the device adopts the FILE* and closes it
            }
        }
        else gil::read_image(name, back, tag_t());
        std::remove(name.c_str());
        VCHECK(back.width() == w && back.height() == h, fmt_name[F], "read back dimensions", back.width(), back.height(), "written", w, h);
        auto bv = gil::const_view(back);
        if constexpr (F == F_JPEG)
        {
            int kind = static_cast<int>(c.get("content"));
            // bound calibrated once on the pinned tree and frozen: quality 100, 4:2:0 chroma for rgb; constant images within one level
            double bound = kind == CT_CONST ? 1.0 : (nchan<Pix>() == 1 ? 6.0 : 255.0);
            for (i64 y = 0; y < h; ++y) for (i64 x = 0; x < w; ++x) for (int k = 0; k < nchan<Pix>(); ++k)
                VCHECK(std::fabs(get_ch(bv(x, y), k) - get_ch(v(x, y), k)) <= bound, "jpeg: channel differs by more than the bound", x, y, k, get_ch(bv(x, y), k), get_ch(v(x, y), k), bound);
            if (nchan<Pix>() == 3 && kind == CT_GRADIENT)
                for (i64 y = 0; y < h; ++y) for (i64 x = 0; x < w; ++x) for (int k = 0; k < 3; ++k)
                    VCHECK(std::fabs(get_ch(bv(x, y), k) - get_ch(v(x, y), k)) <= 48.0, "jpeg: gradient differs by more than 48 levels", x, y, k);
        }
        else
        {
            for (i64 y = 0; y < h; ++y)
                for (i64 x = 0; x < w; ++x)
                    for (int k = 0; k < nchan<Pix>(); ++k)
                    {
                        double want = get_ch(v(x, y), k);
                        if constexpr (F == F_TIFF && has_alpha)
                        {
                            // known finding: strips and tiles that lie strictly inside the image are written premultiplied, border tiles as given
                            bool premult = !info._is_tiled;
                            if (info._is_tiled)
                            {
                                i64 tw = info._tile_width, tl = info._tile_length;
                                i64 tj = (x / tw) * tw, ti = (y / tl) * tl;
                                premult = (tj + tw < w) && (ti + tl < h);
                            }
                            if (g_known_tiff_alpha && premult)
                            {
                                // open known finding: the writer stores premultiplied colour (associated alpha) and the reader returns it as is
                                Pix src(v(x, y));
                                Pix pm;
                                gil::premultiply()(src, pm); // exactly what the writer applies
                                want = get_ch(pm, k);
                            }
                        }
                        VCHECK(get_ch(bv(x, y), k) == want, fmt_name[F], "pixel", x, y, "channel", k, "read back", get_ch(bv(x, y), k), "written", want);
                    }
        }
    }

    static void run(Case const& c)
    {
        i64 w = c.get("w"), h = c.get("h");
        if (w < 1 || h < 1 || w > 200 || h > 200) return;
        int org = static_cast<int>(c.get("org")) % O_COUNT;
        std::uint64_t seed = static_cast<std::uint64_t>(c.get("seed"));
        int kind = static_cast<int>(c.get("content")) & 3;
        i64 mx = c.get("margin", 0, 0) % 4, my = c.get("margin", 0, 1) % 3, sx = 1 + c.get("margin", 0, 2) % 3, sy = 1 + c.get("margin", 0, 3) % 2;
        // the PNM and TIFF writers do not compile for step views of bit-aligned pixels (static_assert resp. row iterator construction):
        // those organisations are outside what can be instantiated, only whole images and sub-views are generated for them
        constexpr bool bitaligned = !std::is_lvalue_reference<typename Img::view_t::reference>::value && !gil::is_planar<typename Img::view_t>::value;
        if constexpr (bitaligned && (F == F_PNM || F == F_TIFF)) { if (org != O_WHOLE && org != O_SUB) org = O_SUB; }
        switch (org)
        {
        case O_WHOLE: { Img img(w, h, static_cast<std::size_t>(c.get("align") % 2 ? 8 : 0)); fill_content(gil::view(img), kind, seed); round_trip(gil::view(img), c, w, h); break; }
        case O_SUB: { Img img(w + mx + 1, h + my + 1); fill_content(gil::view(img), CT_RANDOM, seed ^ 5); auto v = gil::subimage_view(gil::view(img), mx, my, w, h); fill_content(v, kind, seed); round_trip(v, c, w, h); break; }
        case O_STEP: if constexpr (!(bitaligned && (F == F_PNM || F == F_TIFF))) { Img img(w * sx, h * sy); fill_content(gil::view(img), CT_RANDOM, seed ^ 5); auto v = gil::subsampled_view(gil::view(img), sx, sy); fill_content(v, kind, seed); round_trip(v, c, w, h); } break;
        case O_FLIP: if constexpr (!(bitaligned && (F == F_PNM || F == F_TIFF))) { Img img(w, h); auto v = gil::flipped_up_down_view(gil::flipped_left_right_view(gil::view(img))); fill_content(v, kind, seed); round_trip(v, c, w, h); } break;
        default: if constexpr (!(bitaligned && (F == F_PNM || F == F_TIFF))) { Img img(h, w); auto v = gil::transposed_view(gil::view(img)); fill_content(v, kind, seed); round_trip(v, c, w, h); } break;
        }
    }
};

static void run_case(Case const& c)
{
    int e = static_cast<int>(c.get("entry"));
    if (e < 0 || e >= NE) return;
    mp::mp_with_index<NE>(static_cast<std::size_t>(e), [&](auto I) {
        using E = mp::mp_at_c<Entries, decltype(I)::value>;
#ifdef ONLY_ENTRY
        if constexpr (decltype(I)::value == ONLY_ENTRY) RT<E::fmt, typename E::image_t>::run(c);
#elif defined(C12_GROUP)
        if constexpr ((decltype(I)::value % C12_NGROUPS) == C12_GROUP) RT<E::fmt, typename E::image_t>::run(c);
        else throw verif::Fail("entry not compiled into this group");
#else
        RT<E::fmt, typename E::image_t>::run(c);
#endif
    });
}

#ifndef C12_NGROUPS
#define C12_NGROUPS 1
#endif
#ifndef C12_GROUP
#define C12_GROUP_ALL
#endif
static std::vector<int> my_entries()
{
    std::vector<int> v;
    for (int i = 0; i < NE; ++i)
    {
#ifdef C12_GROUP_ALL
        v.push_back(i);
#else
        if ((i % C12_NGROUPS) == C12_GROUP) v.push_back(i);
#endif
    }
    return v;
}
static int entry_fmt(int e)
{
    int f = 0;
    mp::mp_with_index<NE>(static_cast<std::size_t>(e), [&](auto I) { f = mp::mp_at_c<Entries, decltype(I)::value>::fmt; });
    return f;
}

static Case gen_case(bool th)
{
    Case c;
    int e = verif::one_of(my_entries());
    c.set("entry", e);
    i64 N = th ? 70 : 20;
    int big = verif::weighted({80, 20});
    i64 w = big ? verif::pick(1, N) : verif::pick(1, 9), h = big ? verif::pick(1, N / 2 + 1) : verif::pick(1, 9);
    // JPEG: the compressed stream has to outgrow the writer's 1 KiB buffer several times for the flush path to matter
    if (entry_fmt(e) == F_JPEG && verif::coin(35)) { w = verif::pick(24, th ? 90 : 64); h = verif::pick(17, th ? 60 : 40); }
    if (entry_fmt(e) == F_TIFF && verif::coin(20)) { w = verif::one_of<i64>({15, 16, 17, 31, 32, 33, 48}); h = verif::one_of<i64>({1, 15, 16, 17, 32, 33}); }
    c.set("w", w); c.set("h", h);
    c.set("org", verif::weighted({40, 20, 15, 15, 10}));
    c.set("content", verif::weighted({50, 20, 15, 15}));
    c.set("dest", verif::pick(0, 2));
    c.set("rdev", verif::pick(0, 2));
    c.set("xdev", verif::coin(35) ? 1 : 0);
    c.set("opt", {verif::pick(0, 3), verif::pick(0, 2), verif::pick(0, 3)});
    c.set("margin", {verif::pick(0, 3), verif::pick(0, 2), verif::pick(0, 2), verif::pick(0, 1)});
    c.set("align", verif::pick(0, 1));
    c.set("seed", verif::seed64());
    return c;
}
static bool nontrivial(Case const& c)
{
    // width not a multiple of the packing unit (8 covers 1/2/4-bit rows, BMP mod 4, tiles) or a non-contiguous source view
    return (c.get("w") % 8) != 0 || c.get("org") != O_WHOLE;
}

void verif_replay(Case const& c)
{
    g_known_tiff_alpha = c.get("known_tiff_alpha", 1) != 0;
    run_case(c);
}

void verif_run(verif::Args const& a, verif::Evidence& ev)
{
    bool th = a.thorough();
    g_known_tiff_alpha = a.is_known("K12-tiff-alpha");
    g_tmpdir = a.outdir;
    ev.rule = "rapidcheck cases = (entry from the group's share of 52 (format, pixel type) pairs taken from each format's write-support table: BMP rgb8/rgba8; PNM gray1/gray8/rgb8; TARGA rgb8/rgba8; PNG gray1/2/4/8/16, "
              "gray_alpha8/16, rgb8/16, rgba8/16; TIFF gray1/2/4/8/16/32/32f, rgb8/16/32f, rgba8/16, cmyk8/16, planar rgb8; JPEG gray8/rgb8/cmyk8; plus bgr8/abgr8/argb8/bgra8 and planar rgb8/rgba8 variants for every format that supports the colour space), w in 1..20 (70), h in 1..11 (36), TIFF tile-edge sizes, organisation "
              "{whole (aligned or not), sub-view, sub-sampled, flipped both ways, transposed}, contents {random, gradient, constant, checker}, destination and read-back device {file name, FILE*, std stream}, TIFF "
              "{none, LZW, deflate, packbits} x {strip, tiles 16/32}, optional cross-device byte comparison). oracle: read_image into the same type has the same dimensions and every channel of every pixel equals the source "
              "view's (JPEG: quality 100, frozen bounds). non-trivial: width not a multiple of 8 or non-contiguous source; distinct = (entry, shape, organisation, content kind, devices, options).";
    int cases = th ? 450000 : 25000;
    verif::rc_search(ev, a, "rt", cases, 60, [&] { return gen_case(th); }, run_case, nontrivial, {"entry", "w", "h", "org", "content", "dest", "rdev", "opt", "xdev"});
    if (g_known_tiff_alpha)
    {
        bool fails = false;
        g_known_tiff_alpha = false;
        try
        {
            gil::rgba8_image_t img(2, 1);
            gil::view(img)(0, 0) = gil::rgba8_pixel_t(10, 20, 30, 128);
            gil::view(img)(1, 0) = gil::rgba8_pixel_t(200, 100, 50, 255);
            Case c;
            c.set("w", 2); c.set("h", 1); c.set("dest", D_NAME); c.set("rdev", D_NAME); c.set("opt", {0, 1, 0}); c.set("content", 0);
            RT<F_TIFF, gil::rgba8_image_t>::round_trip(gil::const_view(img), c, 2, 1);
        }
        catch (verif::Fail const&) { fails = true; }
        g_known_tiff_alpha = true;
        ev.known.push_back({"K12-tiff-alpha", fails, "TIFF writer stores alpha-premultiplied colour (ASSOCALPHA; strips and interior tiles, not border tiles) and the reader returns it unchanged: rgba8 (10,20,30,128) reads back as (5,10,15,128)"});
    }
}

VERIF_MAIN(VERIF_TARGET_NAME)
