// C06 — channel_convert is the order-preserving linear range map with exact end points.
// Engine: complete enumeration of the source values of every ordered pair of channel models (stratified for 32-bit / float),
// oracle: exact rational rescaling in __int128 / long double.
#include "common/verif.hpp"

#include <boost/gil.hpp>
#include <boost/mp11.hpp>

#include <cmath>
#include <thread>

namespace gil = boost::gil;
namespace mp = boost::mp11;
using verif::Case;
using verif::i64;
using i128 = __int128;

#ifndef VERIF_STRIDE
#define VERIF_STRIDE 1 // sanitized build enumerates every VERIF_STRIDE-th value (+ both ends)
#endif

// ------------------------------------------------------------------------------------------------ channel models
template <class T> struct CM;
#define INT_MODEL(T, NAME, LO, HI)                                                                                                   \
    template <> struct CM<T>                                                                                                         \
    {                                                                                                                                \
        static const char* name() { return NAME; }                                                                                   \
        static constexpr bool is_float = false;                                                                                      \
        static constexpr bool is32 = sizeof(T) == 4;                                                                                 \
        static i64 lo() { return LO; }                                                                                               \
        static i64 hi() { return HI; }                                                                                               \
        static T make(i64 v) { return static_cast<T>(v); }                                                                           \
        static i64 to_i(T v) { return static_cast<i64>(v); }                                                                         \
    };
INT_MODEL(std::uint8_t, "u8", 0, 255)
INT_MODEL(std::uint16_t, "u16", 0, 65535)
INT_MODEL(std::uint32_t, "u32", 0, 4294967295LL)
INT_MODEL(std::int8_t, "s8", -128, 127)
INT_MODEL(std::int16_t, "s16", -32768, 32767)
INT_MODEL(std::int32_t, "s32", -2147483648LL, 2147483647LL)
template <int N> struct CM<gil::packed_channel_value<N>>
{
    using T = gil::packed_channel_value<N>;
    static const char* name() { static std::string s = "p" + std::to_string(N); return s.c_str(); }
    static constexpr bool is_float = false;
    static constexpr bool is32 = false;
    static i64 lo() { return 0; }
    static i64 hi() { return (i64(1) << N) - 1; }
    static T make(i64 v) { return T(static_cast<typename T::integer_t>(v)); }
    static i64 to_i(T v) { return static_cast<i64>(static_cast<typename T::integer_t>(v)); }
};
template <> struct CM<gil::float32_t>
{
    using T = gil::float32_t;
    static const char* name() { return "f32"; }
    static constexpr bool is_float = true;
    static constexpr bool is32 = true;
    static i64 lo() { return 0; }
    static i64 hi() { return 1; }
};

using Models = mp::mp_list<std::uint8_t, std::uint16_t, std::uint32_t, std::int8_t, std::int16_t, std::int32_t, gil::float32_t,
                           gil::packed_channel_value<1>, gil::packed_channel_value<2>, gil::packed_channel_value<3>, gil::packed_channel_value<4>,
                           gil::packed_channel_value<5>, gil::packed_channel_value<6>, gil::packed_channel_value<7>, gil::packed_channel_value<8>,
                           gil::packed_channel_value<9>, gil::packed_channel_value<10>, gil::packed_channel_value<11>, gil::packed_channel_value<12>,
                           gil::packed_channel_value<13>, gil::packed_channel_value<14>, gil::packed_channel_value<15>, gil::packed_channel_value<16>>;
constexpr std::size_t NM = mp::mp_size<Models>::value;

static float bits2f(i64 b) { std::uint32_t u = static_cast<std::uint32_t>(b); float f; std::memcpy(&f, &u, 4); return f; }
static i64 f2bits(float f) { std::uint32_t u; std::memcpy(&u, &f, 4); return u; }

static const long double FTOL = 1.0L / 4194304.0L; // 2^-22: "up to float32 precision"

// stratified 32-bit sample (sorted, unique), as offsets from the channel minimum
static std::vector<i64> const& strat32(std::uint64_t seed)
{
    static std::vector<i64> v;
    static bool init = false;
    if (!init)
    {
        init = true;
        i64 const HI = 4294967295LL;
        auto add = [&](i64 x) { if (x >= 0 && x <= HI) v.push_back(x); };
        for (i64 k = 0; k < 65536; ++k) for (i64 d = -2; d <= 2; ++d) add(k * 65537 + d);
        for (i64 k = 0; k < 256; ++k) for (i64 d = -2; d <= 2; ++d) add(k * 16843009 + d);
        for (int b = 0; b <= 32; ++b) for (i64 d = -2; d <= 2; ++d) add((i64(1) << b) + d);
        for (i64 d = 0; d < 70000; ++d) { add(d); add(HI - d); add(2147483648LL - 35000 + d); }
        verif::SplitMix r(seed);
        for (int i = 0; i < 120000; ++i) add(static_cast<i64>(r.next() & 0xffffffffULL));
        std::sort(v.begin(), v.end());
        v.erase(std::unique(v.begin(), v.end()), v.end());
    }
    return v;
}
// float sample in [0,1], sorted unique
static std::vector<float> const& stratf(std::uint64_t seed)
{
    static std::vector<float> v;
    static bool init = false;
    if (!init)
    {
        init = true;
        auto add = [&](float f) {
            for (int d = -2; d <= 2; ++d)
            {
                float g = f;
                for (int i = 0; i < std::abs(d); ++i) g = std::nextafterf(g, d < 0 ? -1.0f : 2.0f);
                if (g >= 0.0f && g <= 1.0f) v.push_back(g);
            }
        };
        for (int k = 0; k <= 255; ++k) add(float(k) / 255.0f);
        for (int k = 0; k <= 65535; ++k) add(float(k) / 65535.0f);
        for (int n = 1; n <= 16; ++n) { int m = (1 << n) - 1; for (int k = 0; k <= m && k < 4096; ++k) add(float(k) / float(m)); }
        for (int k = 0; k <= 510; ++k) add((float(k)) / 510.0f); // half levels of 8 bit
        add(0.0f); add(0.5f); add(1.0f); add(1.0f / 3); add(1e-30f); add(std::numeric_limits<float>::denorm_min());
        verif::SplitMix r(seed);
        for (int i = 0; i < 100000; ++i) add(float(r.next() >> 40) / float(1 << 24));
        std::sort(v.begin(), v.end());
        v.erase(std::unique(v.begin(), v.end()), v.end());
    }
    return v;
}

struct Ctx
{
    verif::Evidence* ev;
    std::uint64_t seed;
    bool thorough;
};

// one conversion of value index / value; returns result and checks everything that is local to one value.
// prev_* carry the previous (smaller) source value's result for the monotonicity clause.
template <class S, class D>
struct Pair
{
    static std::string tag() { return std::string(CM<S>::name()) + "->" + CM<D>::name(); }

    // integral source value v (real value, not offset)
    static void check_int_src(i64 v, bool& have_prev, long double& prev, Case const* /*for msg*/ = nullptr)
    {
        using namespace gil;
        S s = CM<S>::make(v);
        auto r = channel_convert<D>(s);
        i64 smin = CM<S>::lo(), smax = CM<S>::hi();
        if constexpr (CM<D>::is_float)
        {
            long double res = static_cast<float>(r);
            long double exact = (long double)(v - smin) / (long double)(smax - smin);
            VCHECK(res >= 0.0L && res <= 1.0L, tag(), "result outside [0,1]", v, (double)res);
            if (v == smin) VCHECK(res == 0.0L, tag(), "min does not map to min", (double)res);
            if (v == smax) VCHECK(res == 1.0L, tag(), "max does not map to max", (double)res);
            VCHECK(fabsl(res - exact) <= FTOL, tag(), "differs from the linear map by more than float32 precision", v, (double)res, (double)exact);
            if (have_prev) VCHECK(res >= prev, tag(), "not monotone at", v);
            prev = res;
            have_prev = true;
            // float32 has at least as many levels as any channel of up to 24 bits: round trip
            if (!CM<S>::is32)
            {
                auto back = channel_convert<S>(r);
                VCHECK(CM<S>::to_i(back) == v, tag(), "round trip through float32 changed the value", v, (double)res, CM<S>::to_i(back));
            }
        }
        else
        {
            i64 dmin = CM<D>::lo(), dmax = CM<D>::hi();
            i64 res = CM<D>::to_i(r);
            VCHECK(res >= dmin && res <= dmax, tag(), "result outside the destination range", v, res);
            if (v == smin) VCHECK(res == dmin, tag(), "min does not map to min", res);
            if (v == smax) VCHECK(res == dmax, tag(), "max does not map to max", res);
            i128 num = (i128)(v - smin) * (i128)(dmax - dmin);
            i128 den = (i128)(smax - smin);
            i128 diff = (i128)(res - dmin) * den - num;
            if (diff < 0) diff = -diff;
            if (CM<S>::is32 || CM<D>::is32)
            {
                // less than one unit, up to float32 precision of the destination range
                long double tol = 1.0L + (long double)(dmax - dmin) * FTOL;
                VCHECK((long double)diff < tol * (long double)den, tag(), "differs from the linear map by a unit or more (beyond float32 precision)", v, res);
            }
            else
                VCHECK(diff < den, tag(), "differs from the exact linear rescaling by one destination unit or more", v, res);
            if (have_prev) VCHECK((long double)res >= prev, tag(), "not monotone at", v, res);
            prev = (long double)res;
            have_prev = true;
            // at least as many levels: round trip
            if ((dmax - dmin) >= (smax - smin))
            {
                auto back = channel_convert<S>(r);
                VCHECK(CM<S>::to_i(back) == v, tag(), "round trip through a channel with at least as many levels changed the value", v, res, CM<S>::to_i(back));
            }
            if (std::is_same<S, D>::value) VCHECK(res == v, tag(), "conversion to the same type is not the identity", v, res);
        }
    }

    static void check_float_src(float f, bool& have_prev, long double& prev)
    {
        using namespace gil;
        float32_t s(f);
        auto r = channel_convert<D>(s);
        if constexpr (CM<D>::is_float)
        {
            VCHECK(static_cast<float>(r) == f, tag(), "float to float is not the identity", f);
        }
        else
        {
            i64 dmin = CM<D>::lo(), dmax = CM<D>::hi();
            i64 res = CM<D>::to_i(r);
            VCHECK(res >= dmin && res <= dmax, tag(), "result outside the destination range", f, res);
            if (f == 0.0f) VCHECK(res == dmin, tag(), "min does not map to min", res);
            if (f == 1.0f) VCHECK(res == dmax, tag(), "max does not map to max", res);
            long double exact = (long double)dmin + (long double)f * (long double)(dmax - dmin);
            long double tol = 1.0L + (long double)(dmax - dmin) * FTOL;
            VCHECK(fabsl((long double)res - exact) < tol, tag(), "differs from the linear map by a unit or more (beyond float32 precision)", f, res, (double)exact);
            if (have_prev) VCHECK((long double)res >= prev, tag(), "not monotone at", f, res);
            prev = (long double)res;
            have_prev = true;
        }
    }

    static void run_pair(Ctx const& cx, std::size_t si, std::size_t di)
    {
        verif::Evidence& ev = *cx.ev;
        std::uint64_t n = 0, nt = 0;
        bool have_prev = false;
        long double prev = 0;
        Case cur;
        cur["@conv"];
        cur.set("s", (i64)si);
        cur.set("d", (i64)di);
        try
        {
            if constexpr (CM<S>::is_float)
            {
                auto const& fs = stratf(cx.seed);
                for (std::size_t i = 0; i < fs.size(); i += VERIF_STRIDE)
                {
                    cur.set("v", f2bits(fs[i]));
                    check_float_src(fs[i], have_prev, prev);
                    ++n;
                    if (fs[i] > 0.0f && fs[i] < 1.0f && !std::is_same<S, D>::value) ++nt;
                }
                cur.set("v", f2bits(1.0f));
                check_float_src(1.0f, have_prev, prev);
            }
            else if constexpr (CM<S>::is32)
            {
                auto const& os = strat32(cx.seed);
                i64 smin = CM<S>::lo();
                for (std::size_t i = 0; i < os.size(); i += VERIF_STRIDE)
                {
                    i64 v = smin + os[i];
                    cur.set("v", v);
                    check_int_src(v, have_prev, prev);
                    ++n;
                    if (v > smin && v < CM<S>::hi() && !std::is_same<S, D>::value) ++nt;
                }
                cur.set("v", CM<S>::hi());
                check_int_src(CM<S>::hi(), have_prev, prev);
            }
            else
            {
                i64 smin = CM<S>::lo(), smax = CM<S>::hi();
                for (i64 v = smin; v <= smax; v += VERIF_STRIDE)
                {
                    cur.set("v", v);
                    check_int_src(v, have_prev, prev);
                    ++n;
                    if (v > smin && v < smax && !std::is_same<S, D>::value) ++nt;
                }
                if (VERIF_STRIDE > 1)
                {
                    cur.set("v", smax);
                    check_int_src(smax, have_prev, prev);
                }
            }
        }
        catch (verif::Fail const& f)
        {
            ev.fail(cur, f.what());
        }
        ev.eval(n);
        ev.nontrivial_counter += nt;
        if (n) ev.classify("pair:" + tag(), n);
    }

    // full 2^32 sweep chunk [a,b) of offsets from the minimum (thorough tier)
    static void sweep(Ctx const& cx, i64 a, i64 b, std::size_t si, std::size_t di)
    {
        verif::Evidence& ev = *cx.ev;
        bool have_prev = false;
        long double prev = 0;
        Case cur;
        cur["@conv"];
        cur.set("s", (i64)si);
        cur.set("d", (i64)di);
        i64 smin = CM<S>::lo();
        std::uint64_t n = 0;
        try
        {
            if constexpr (!CM<S>::is_float)
                for (i64 o = (a > 0 ? a - 1 : a); o < b; ++o) // start one early so monotonicity is checked across chunk borders
                {
                    i64 v = smin + o;
                    cur.set("v", v);
                    check_int_src(v, have_prev, prev);
                    ++n;
                }
        }
        catch (verif::Fail const& f)
        {
            ev.fail(cur, f.what());
        }
        ev.eval(n);
        ev.nontrivial_counter += n > 2 ? n - 2 : 0;
        ev.classify("sweep32:" + tag(), n);
    }

    static void replay(Case const& c)
    {
        bool hp = false;
        long double pv = 0;
        i64 v = c.get("v");
        if constexpr (CM<S>::is_float)
        {
            float f = bits2f(v);
            float fprev = std::nextafterf(f, -1.0f);
            if (fprev >= 0.0f) check_float_src(fprev, hp, pv);
            check_float_src(f, hp, pv);
        }
        else
        {
            if (v > CM<S>::lo()) check_int_src(v - 1, hp, pv);
            check_int_src(v, hp, pv);
        }
    }
};

// ------------------------------------------------------------------------------------------------ packed channel references
// conversions read through / assigned to reference proxies must agree with the value conversions
template <class BF, int FB, int NB>
static void ref_static(verif::Evidence& ev)
{
    using namespace gil;
    using ref_t = packed_channel_reference<BF, FB, NB, true> const;
    using val_t = packed_channel_value<NB>;
    i64 hi = (i64(1) << NB) - 1;
    Case cur;
    cur["@ref"];
    cur.set("fb", FB);
    cur.set("nb", NB);
    std::uint64_t n = 0;
    try
    {
        for (i64 v = 0; v <= hi; ++v)
        {
            BF data = static_cast<BF>(0x5aa5c33c96696996ULL);
            BF before = data;
            ref_t r(&data);
            r = static_cast<typename ref_t::integer_t>(v);
            cur.set("v", v);
            VCHECK(i64(channel_convert<std::uint8_t>(r)) == i64(channel_convert<std::uint8_t>(val_t(v))), "static ref -> u8 differs from value conversion", v);
            VCHECK(i64(channel_convert<std::uint16_t>(r)) == i64(channel_convert<std::uint16_t>(val_t(v))), "static ref -> u16 differs from value conversion", v);
            VCHECK(float(channel_convert<float32_t>(r)) == float(channel_convert<float32_t>(val_t(v))), "static ref -> f32 differs", v);
            // identity on the reference's own type, bit exact
            auto same = channel_convert<ref_t>(r);
            VCHECK(i64(typename val_t::integer_t(same)) == v, "conversion of a reference to its own type is not the identity", v);
            // destination side: u8 -> this channel, assigned through the proxy
            for (i64 u = 0; u <= 255; u += 5)
            {
                auto cv = channel_convert<ref_t>(std::uint8_t(u));
                r = cv;
                VCHECK(i64(typename val_t::integer_t(r.get())) == i64(typename val_t::integer_t(channel_convert<val_t>(std::uint8_t(u)))), "u8 -> ref differs from u8 -> value", u);
                ++n;
            }
            BF mask = static_cast<BF>(static_cast<BF>(hi) << FB);
            VCHECK(static_cast<BF>(data & ~mask) == static_cast<BF>(before & ~mask), "writing through the reference changed other bits");
            ++n;
        }
    }
    catch (verif::Fail const& f) { ev.fail(cur, f.what()); }
    ev.eval(n);
    ev.nontrivial_counter += n;
}
template <class BF, int NB>
static void ref_dynamic(verif::Evidence& ev)
{
    using namespace gil;
    using ref_t = packed_dynamic_channel_reference<BF, NB, true> const;
    using val_t = packed_channel_value<NB>;
    i64 hi = (i64(1) << NB) - 1;
    Case cur;
    cur["@dref"];
    cur.set("nb", NB);
    std::uint64_t n = 0;
    try
    {
        for (unsigned fb = 0; fb + NB <= sizeof(BF) * 8 && fb < 8; ++fb)
            for (i64 v = 0; v <= hi; ++v)
            {
                BF data = static_cast<BF>(0xa55a3cc369969669ULL);
                ref_t r(&data, fb);
                r = static_cast<typename ref_t::integer_t>(v);
                cur.set("v", v);
                cur.set("fb", fb);
                VCHECK(i64(channel_convert<std::uint8_t>(r)) == i64(channel_convert<std::uint8_t>(val_t(v))), "dynamic ref -> u8 differs from value conversion", v, fb);
                VCHECK(i64(channel_convert<std::uint16_t>(r)) == i64(channel_convert<std::uint16_t>(val_t(v))), "dynamic ref -> u16 differs from value conversion", v, fb);
                auto same = channel_convert<ref_t>(r);
                VCHECK(i64(typename val_t::integer_t(same)) == v, "conversion of a dynamic reference to its own type is not the identity", v);
                ++n;
            }
    }
    catch (verif::Fail const& f) { ev.fail(cur, f.what()); }
    ev.eval(n);
    ev.nontrivial_counter += n;
}

// ------------------------------------------------------------------------------------------------ dispatch tables
using PairFn = void (*)(Ctx const&, std::size_t, std::size_t);
using SweepFn = void (*)(Ctx const&, i64, i64, std::size_t, std::size_t);
using ReplayFn = void (*)(Case const&);
static PairFn g_pair[NM][NM];
static SweepFn g_sweep[NM][NM];
static ReplayFn g_replay[NM][NM];
static std::string g_name[NM];

static void build_tables()
{
    mp::mp_for_each<mp::mp_iota_c<NM>>([](auto I) {
        using S = mp::mp_at_c<Models, decltype(I)::value>;
        g_name[decltype(I)::value] = CM<S>::name();
        mp::mp_for_each<mp::mp_iota_c<NM>>([](auto J) {
            using S2 = mp::mp_at_c<Models, decltype(I)::value>;
            using D = mp::mp_at_c<Models, decltype(J)::value>;
            g_pair[decltype(I)::value][decltype(J)::value] = &Pair<S2, D>::run_pair;
            g_sweep[decltype(I)::value][decltype(J)::value] = &Pair<S2, D>::sweep;
            g_replay[decltype(I)::value][decltype(J)::value] = &Pair<S2, D>::replay;
        });
    });
}

void verif_replay(Case const& c)
{
    build_tables();
    if (c.has("@conv"))
    {
        std::size_t s = (std::size_t)c.get("s"), d = (std::size_t)c.get("d");
        if (s >= NM || d >= NM) throw verif::Fail("bad model index");
        g_replay[s][d](c);
        return;
    }
    // reference sub-targets are cheap: re-run them whole
    verif::Evidence ev;
    ref_static<std::uint16_t, 0, 5>(ev); ref_static<std::uint16_t, 5, 6>(ev); ref_static<std::uint16_t, 11, 5>(ev);
    ref_static<std::uint8_t, 1, 3>(ev); ref_static<std::uint32_t, 7, 10>(ev); ref_static<std::uint8_t, 0, 8>(ev);
    ref_dynamic<std::uint8_t, 1>(ev); ref_dynamic<std::uint16_t, 5>(ev); ref_dynamic<std::uint32_t, 7>(ev); ref_dynamic<std::uint16_t, 8>(ev);
    if (ev.n_failures()) throw verif::Fail(ev.failures[0].second);
}

void verif_run(verif::Args const& a, verif::Evidence& ev)
{
    build_tables();
    Ctx cx{&ev, a.seed, a.thorough()};
    ev.rule = "every ordered pair of the 23 channel value models {u8,u16,u32,s8,s16,s32,f32,packed 1..16 bit} x every source value "
              "(complete for <=16-bit and packed; 32-bit: ~460k stratified offsets incl. all multiples of 65537 and 16843009 +-2, powers of two +-2, 70000 values at each end and around the sign change, 120k seeded random; "
              "float: k/255, k/65535, k/(2^n-1), +-2 ulp neighbours, 100k seeded random), stride " + std::to_string(VERIF_STRIDE) +
              " in this build; thorough adds complete 2^32 sweeps of u32->{u8,u16,f32,p5} and s32->{s8,s16,u8}; plus packed channel references (static and dynamic) as source and destination. "
              "non-trivial: source value strictly inside its range and S != D; distinct = (S,D,value), each visited once.";
    ev.exhaustive = false;
    strat32(a.seed);
    stratf(a.seed);

    std::vector<std::function<void()>> jobs;
    for (std::size_t s = 0; s < NM; ++s)
        for (std::size_t d = 0; d < NM; ++d)
            jobs.push_back([=, &cx] { g_pair[s][d](cx, s, d); });
    if (a.thorough() && VERIF_STRIDE == 1)
    {
        // model indices: u8=0 u16=1 u32=2 s8=3 s16=4 s32=5 f32=6 p1=7 ... p5=11
        std::pair<std::size_t, std::size_t> sweeps[] = {{2, 0}, {2, 1}, {2, 6}, {2, 11}, {5, 3}, {5, 4}, {5, 0}};
        for (auto sd : sweeps)
            for (int ch = 0; ch < 64; ++ch)
            {
                i64 lo = (i64(1) << 32) / 64 * ch, hi = (i64(1) << 32) / 64 * (ch + 1);
                jobs.push_back([=, &cx] { g_sweep[sd.first][sd.second](cx, lo, hi, sd.first, sd.second); });
            }
    }
    jobs.push_back([&ev] {
        ref_static<std::uint16_t, 0, 5>(ev); ref_static<std::uint16_t, 5, 6>(ev); ref_static<std::uint16_t, 11, 5>(ev);
        ref_static<std::uint8_t, 1, 3>(ev); ref_static<std::uint32_t, 7, 10>(ev); ref_static<std::uint8_t, 0, 8>(ev);
        ref_dynamic<std::uint8_t, 1>(ev); ref_dynamic<std::uint16_t, 5>(ev); ref_dynamic<std::uint32_t, 7>(ev); ref_dynamic<std::uint16_t, 8>(ev);
    });

    std::atomic<std::size_t> next{0};
    std::vector<std::thread> th;
    for (int t = 0; t < a.threads; ++t)
        th.emplace_back([&] {
            for (;;)
            {
                std::size_t i = next++;
                if (i >= jobs.size()) return;
                jobs[i]();
            }
        });
    for (auto& t : th) t.join();
    // samples: a few concrete (pair, value) triples
    for (std::size_t s : {0u, 2u, 5u, 6u, 11u})
        for (std::size_t d : {1u, 6u, 12u})
        {
            Case c;
            c["@conv"];
            c.set("s", (i64)s);
            c.set("d", (i64)d);
            c.set("v", s == 6 ? f2bits(0.3f) : 17);
            ev.sample("{\"pair\":\"" + g_name[s] + "->" + g_name[d] + "\",\"case\":" + c.json() + "}");
        }
}

VERIF_MAIN(VERIF_TARGET_NAME)
