// C03 — all navigation paths over a view reach the same pixel; iterator / locator laws.
// Engine: rapidcheck (configuration, root, shape, view program, start, walk of 1-D-iterator / locator / axis moves) plus, inside every
// case, the complete enumeration of (start index, advance d) for the 1-D iterator and of x/y step-iterator offsets.
// Oracle: an integer position model; "the same pixel" = address identity (byte-addressable), bit-range identity (bit-aligned),
// channel-address identity (planar), tag equality otherwise.
#include "common/rcx.hpp"
#include "common/viewlab.hpp"

using namespace vl;
namespace gil = boost::gil;

template <class T, class = void> struct has_bit_range : std::false_type {};
template <class T> struct has_bit_range<T, decltype(void(std::declval<T const&>().bit_range()))> : std::true_type {};

template <class A, class B> static bool same_pixel(A&& a, B&& b)
{
    using RA = std::decay_t<A>;
    if constexpr (std::is_lvalue_reference<A>::value && std::is_lvalue_reference<B>::value) return static_cast<const void*>(&a) == static_cast<const void*>(&b);
    else if constexpr (has_bit_range<RA>::value) return a.bit_range() == b.bit_range();
    else if constexpr (!std::is_same<RA, typename RA::value_type>::value && std::is_lvalue_reference<decltype(gil::at_c<0>(a))>::value)
        return static_cast<const void*>(&gil::at_c<0>(a)) == static_cast<const void*>(&gil::at_c<0>(b)); // planar reference proxy: identity of the channel objects
    else
    {
        for (int k = 0; k < nchan<RA>(); ++k) if (get_ch(a, k) != get_ch(b, k)) return false;
        return true;
    }
}

struct Walk { std::vector<i64> const* mv; };

template <class V> static void check_view(V const& v, Case const& c)
{
    i64 w = v.width(), h = v.height(), N = w * h;
    // ---------------- empty / size laws
    VCHECK(static_cast<i64>(v.size()) == N, "size() != w*h");
    VCHECK(v.end() - v.begin() == N, "end() - begin() != w*h");
    VCHECK((v.begin() == v.end()) == (N == 0), "begin()==end() iff empty");
    if (N == 0) return;

    auto B = v.begin();
    auto E = v.end();
    auto px = [&](i64 i) -> decltype(auto) { return v(i % w, i / w); };

    // ---------------- complete (start, d) enumeration of the 1-D iterator, bounded cost
    if (N <= 40)
    {
        for (i64 i = 0; i <= N; ++i)
        {
            auto it = B + i;
            VCHECK(it - B == i, "(begin+i)-begin != i", i);
            VCHECK(B - it == -i, "begin-(begin+i) != -i", i);
            if (i < N)
            {
                VCHECK(same_pixel(*it, px(i)), "begin()+i does not refer to view(i%w, i/w)", i);
                VCHECK(it.x_pos() == i % w && it.y_pos() == i / w, "x_pos/y_pos wrong", i, it.x_pos(), it.y_pos());
                VCHECK(same_pixel(B[i], px(i)), "begin()[i] wrong", i);
                VCHECK(same_pixel(*v.at(i), px(i)), "at(i) wrong", i);
                VCHECK(same_pixel(*v.at(i % w, i / w), px(i)), "at(x,y) wrong", i);
                VCHECK(same_pixel(v.rbegin()[N - 1 - i], px(i)), "rbegin()[w*h-1-i] wrong", i);
                VCHECK(same_pixel(*v.xy_at(i % w, i / w), px(i)), "xy_at(x,y) wrong", i);
                VCHECK(same_pixel(v.row_begin(i / w)[i % w], px(i)), "row_begin(y)[x] wrong", i);
                VCHECK(same_pixel(v.col_begin(i % w)[i / w], px(i)), "col_begin(x)[y] wrong", i);
                auto t = it;
                ++t; --t;
                VCHECK(t == it, "--(++it) != it", i);
                if (i > 0) { auto u = it; --u; ++u; VCHECK(u == it, "++(--it) != it", i); }
            }
            for (i64 d = -i; d <= N - i; ++d)
            {
                auto jt = it + d;
                VCHECK(jt - it == d, "(it+d)-it != d", i, d);
                VCHECK(jt == B + (i + d), "it+d != begin+(i+d)", i, d);
                VCHECK((jt + (-d)) == it, "(it+d)+(-d) != it", i, d);
                auto kt = it;
                kt += d;
                VCHECK(kt == jt, "it+=d differs from it+d", i, d);
                if (i + d < N)
                {
                    VCHECK(same_pixel(*jt, px(i + d)), "it+d refers to a wrong pixel", i, d);
                    VCHECK(same_pixel(it[d], px(i + d)), "it[d] != *(it+d)", i, d);
                }
                VCHECK((it < jt) == (d > 0) && (it > jt) == (d < 0) && (it <= jt) == (d >= 0) && (it >= jt) == (d <= 0) && (it == jt) == (d == 0) && (it != jt) == (d != 0),
                       "relational operators disagree with the distance", i, d);
            }
        }
        // associativity on a lattice
        for (i64 i = 0; i <= N; i += 3)
            for (i64 n = -i; n <= N - i; n += 2)
                for (i64 m = -(i + n); m <= N - (i + n); m += 3) VCHECK(((B + i) + n) + m == (B + i) + (n + m), "(it+n)+m != it+(n+m)", i, n, m);
    }

    // ---------------- x and y step iterators: all offsets
    for (i64 y = 0; y < h; ++y)
    {
        auto r = v.row_begin(y);
        VCHECK(v.row_end(y) - r == w, "row_end-row_begin != w");
        for (i64 a = 0; a <= w; ++a)
            for (i64 b = 0; b <= w; ++b)
            {
                auto ia = r + a, ib = r + b;
                VCHECK(ib - ia == b - a, "x-iterator distance wrong", y, a, b);
                VCHECK((ia < ib) == (a < b) && (ia > ib) == (a > b) && (ia <= ib) == (a <= b) && (ia >= ib) == (a >= b) && (ia == ib) == (a == b) && (ia != ib) == (a != b),
                       "x-iterator relational operators disagree with positions", y, a, b);
                VCHECK(ia + (b - a) == ib, "x-iterator advance wrong", y, a, b);
                if (b < w) VCHECK(same_pixel(ia[b - a], v(b, y)), "x-iterator [] wrong", y, a, b);
            }
    }
    for (i64 x = 0; x < w; ++x)
    {
        auto cit = v.col_begin(x);
        VCHECK(v.col_end(x) - cit == h, "col_end-col_begin != h");
        for (i64 a = 0; a <= h; ++a)
            for (i64 b = 0; b <= h; ++b)
            {
                auto ia = cit + a, ib = cit + b;
                VCHECK(ib - ia == b - a, "y-iterator distance wrong", x, a, b);
                VCHECK((ia < ib) == (a < b) && (ia > ib) == (a > b) && (ia <= ib) == (a <= b) && (ia >= ib) == (a >= b) && (ia == ib) == (a == b) && (ia != ib) == (a != b),
                       "y-iterator relational operators disagree with positions", x, a, b);
                if (b < h) VCHECK(same_pixel(ia[b - a], v(x, b)), "y-iterator [] wrong", x, a, b);
            }
    }

    // ---------------- is_1d_traversable only when the end of each row is the start of the next (the last row's "next" is end().x())
    {
        bool contiguous = true;
        for (i64 y = 0; y < h; ++y)
        {
            auto next = (y + 1 < h) ? v.row_begin(y + 1) : E.x();
            if (!(v.row_begin(y) + w == next)) contiguous = false;
        }
        if (v.is_1d_traversable()) VCHECK(contiguous, "is_1d_traversable() is true but stepping an x-iterator past the end of a row does not land on the next row's first pixel");
        if (contiguous && h > 1) VCHECK(v.is_1d_traversable(), "rows are contiguous but is_1d_traversable() is false (fast paths are lost, flagged as a consistency clause)");
    }

    // ---------------- generated walks
    auto const& mv = c.list("walk");
    // 1-D iterator walk
    {
        i64 i = c.get("start", 0, 0) % (N + 1);
        auto it = B + i;
        for (std::size_t s = 0; s + 1 < mv.size(); s += 2)
        {
            i64 kind = mv[s] % 6, n = mv[s + 1];
            i64 target;
            switch (kind)
            {
            case 0: target = i + n; break;
            case 1: target = i - n; break;
            case 2: target = i + 1; break;
            case 3: target = i - 1; break;
            case 4: target = (n & 1) ? ((i / w) + (n % 5) - 2) * w : i - (i % w) + (n % (w + 1)); break; // to a row start / into the row
            default: target = (n & 1) ? N : 0; break;
            }
            if (target < 0 || target > N) continue;
            switch (kind)
            {
            case 2: ++it; break;
            case 3: --it; break;
            default: if ((s / 2) & 1) it += (target - i); else it = it + (target - i); break;
            }
            i = target;
            VCHECK(it - B == i, "walk: iterator distance from begin differs from the model", i);
            VCHECK(it == B + i, "walk: iterator differs from begin()+i", i);
            if (i < N) { VCHECK(same_pixel(*it, px(i)), "walk: 1-D iterator refers to a wrong pixel", i); VCHECK(it.x_pos() == i % w && it.y_pos() == i / w, "walk: x_pos/y_pos wrong", i); }
        }
    }
    // locator walk
    {
        i64 x = c.get("start", 0, 1) % w, y = c.get("start", 0, 2) % h;
        auto loc = v.xy_at(x, y);
        auto origin = v.xy_at(0, 0);
        for (std::size_t s = 0; s + 1 < mv.size(); s += 2)
        {
            i64 kind = mv[s] % 8, n = mv[s + 1];
            i64 dx = (n % 7) - 3, dy = ((n / 7) % 7) - 3;
            i64 nx = x, ny = y;
            switch (kind)
            {
            case 0: nx = x + dx; ny = y + dy; break;
            case 1: nx = x - dx; ny = y - dy; break;
            case 2: nx = x + 1; break;
            case 3: nx = x - 1; break;
            case 4: ny = y + 1; break;
            case 5: ny = y - 1; break;
            case 6: nx = x + dx; break;
            default: ny = y + dy; break;
            }
            if (nx < 0 || nx >= w || ny < 0 || ny >= h) continue;
            using point_t = typename V::point_t;
            switch (kind)
            {
            case 0: loc += point_t(dx, dy); break;
            case 1: loc -= point_t(dx, dy); break;
            case 2: ++loc.x(); break;
            case 3: --loc.x(); break;
            case 4: ++loc.y(); break;
            case 5: --loc.y(); break;
            case 6: loc.x() += dx; break;
            default: loc.y() += dy; break;
            }
            x = nx; y = ny;
            VCHECK(same_pixel(*loc, v(x, y)), "locator walk refers to a wrong pixel", x, y);
            VCHECK(loc == v.xy_at(x, y), "locator differs from xy_at(x,y)", x, y);
            VCHECK(same_pixel(origin(x, y), v(x, y)), "origin locator (x,y) access wrong", x, y);
            // relative access, cached locations, axis iterators from this locator to every pixel of a small neighbourhood
            for (i64 ry = std::max<i64>(0, y - 2); ry <= std::min(h - 1, y + 2); ++ry)
                for (i64 rx = std::max<i64>(0, x - 2); rx <= std::min(w - 1, x + 2); ++rx)
                {
                    VCHECK(same_pixel(loc(rx - x, ry - y), v(rx, ry)), "locator(dx,dy) wrong", x, y, rx, ry);
                    auto cl = loc.cache_location(rx - x, ry - y);
                    VCHECK(same_pixel(loc[cl], v(rx, ry)), "cached location wrong", x, y, rx, ry);
                    VCHECK(same_pixel(*loc.xy_at(rx - x, ry - y), v(rx, ry)), "locator xy_at(dx,dy) wrong", x, y, rx, ry);
                    VCHECK(same_pixel(*loc.x_at(rx - x, ry - y), v(rx, ry)), "locator x_at(dx,dy) wrong", x, y, rx, ry);
                    VCHECK(same_pixel(*loc.y_at(rx - x, ry - y), v(rx, ry)), "locator y_at(dx,dy) wrong", x, y, rx, ry);
                    auto other = v.xy_at(rx, ry);
                    VCHECK(loc.y_distance_to(other, rx - x) == ry - y, "y_distance_to wrong", x, y, rx, ry);
                }
            VCHECK(same_pixel(*(loc.template axis_iterator<0>()), v(x, y)) && same_pixel(*(loc.template axis_iterator<1>()), v(x, y)), "axis iterators of the locator wrong", x, y);
            VCHECK(same_pixel(*v.template axis_iterator<0>(point_t(x, y)), v(x, y)) && same_pixel(*v.template axis_iterator<1>(point_t(x, y)), v(x, y)), "view axis_iterator wrong", x, y);
        }
    }
}

static void run_case(Case const& c)
{
    int cfg = static_cast<int>(c.get("cfg"));
    i64 w = c.get("w"), h = c.get("h"), ap = c.get("ap");
    int rk = static_cast<int>(c.get("rk"));
    if (w < 0 || h < 0 || w > 40 || h > 40 || ap < 0 || ap > 64 || rk < 0 || rk > 2) return;
    std::uint64_t seed = static_cast<std::uint64_t>(c.get("seed"));
    Prog prog = prog_from(c.list("prog")), post = prog_from(c.list("post"));
    int tail = static_cast<int>(c.get("tail", 0, 0)), tparam = static_cast<int>(c.get("tail", 0, 1));
    with_config_in_group(cfg, [&](auto C) {
        using Cfg = decltype(C);
        with_root<Cfg>(rk, w, h, (rk != 0 && ap > 16) ? 16 : ap, seed, [&](auto const& root, RootInfo const&) {
            Model m;
            m.w = root.width();
            m.h = root.height();
            if (!m.apply_all(prog)) return;
            { Model t = m; if (!t.apply_all(post)) return; }
            run_ops(root, prog, 0, [&](auto const& v) {
                using V = std::decay_t<decltype(v)>;
                if (tail == 1)
                {
                    if constexpr (Cfg::homogeneous)
                    {
                        auto nv = gil::nth_channel_view(v, tparam % nchan<typename V::value_type>());
                        run_ops(nv, post, 0, [&](auto const& pv) { check_view(pv, c); });
                        return;
                    }
                }
                else if (tail == 2)
                {
                    if constexpr (Cfg::has_cc)
                    {
                        auto cv = gil::color_converted_view<gil::gray8_pixel_t>(v);
                        run_ops(cv, post, 0, [&](auto const& pv) { check_view(pv, c); });
                        return;
                    }
                }
                check_view(v, c);
                // default-constructed view of the same type
                V dv;
                VCHECK(dv.size() == 0 && dv.begin() == dv.end() && dv.end() - dv.begin() == 0, "default-constructed view is not empty");
            });
        });
    });
}

static Prog gen_prog(Model& m, int maxdepth)
{
    Prog p;
    int n = static_cast<int>(verif::pick(0, maxdepth));
    for (int i = 0; i < n; ++i)
    {
        int kind = verif::weighted({10, 10, 12, 10, 10, 8, 22, 14});
        Op o{kind, 0, 0, 0, 0};
        if (kind == OP_SUBIMAGE)
        {
            if (m.w == 0 || m.h == 0) { o.c = 0; o.d = 0; }
            else { o.a = verif::pick(0, m.w - 1); o.b = verif::pick(0, m.h - 1); o.c = verif::pick(1, m.w - o.a); o.d = verif::pick(1, m.h - o.b); }
        }
        else if (kind == OP_SUBSAMPLE) { o.a = verif::pick(1, 3); o.b = verif::pick(1, 3); }
        if (!m.apply(o)) break;
        p.push_back(o);
    }
    return p;
}

static Case gen_case(bool th)
{
    Case c;
    c.set("cfg", verif::one_of(group_configs()));
    i64 N = th ? 9 : 7, w, h;
    int shape = verif::weighted({74, 5, 5, 8, 8});
    if (shape == 0) { w = verif::pick(1, N); h = verif::pick(1, N); }
    else if (shape == 1) { w = 0; h = verif::pick(0, N); }
    else if (shape == 2) { h = 0; w = verif::pick(0, N); }
    else if (shape == 3) { w = 1; h = verif::pick(1, N); }
    else { h = 1; w = verif::pick(1, N); }
    c.set("w", w); c.set("h", h);
    int rk = verif::weighted({55, 25, 20});
    c.set("rk", rk);
    c.set("ap", rk == 0 ? verif::one_of<i64>({0, 0, 1, 2, 4, 8, 16, 32}) : verif::one_of<i64>({0, 0, 1, 3, 8}));
    c.set("seed", verif::seed64());
    Model m;
    m.w = w; m.h = h;
    c.set("prog", prog_to(gen_prog(m, th ? 4 : 3)));
    int tail = verif::weighted({70, 20, 10});
    c.set("tail", {tail, verif::pick(0, 4)});
    c.set("post", prog_to(tail ? gen_prog(m, 2) : Prog{}));
    c.set("start", {verif::pick(0, 200), verif::pick(0, 63), verif::pick(0, 63)});
    std::vector<i64> mv;
    int len = static_cast<int>(verif::pick(0, th ? 40 : 12));
    i64 span = std::max<i64>(1, m.w) * 3;
    for (int i = 0; i < len; ++i)
    {
        mv.push_back(verif::pick(0, 47));
        i64 cls = verif::weighted({20, 20, 20, 20, 20});
        i64 n = cls == 0 ? verif::pick(0, 2) : cls == 1 ? verif::pick(0, std::max<i64>(1, m.w)) : cls == 2 ? std::max<i64>(1, m.w) + verif::pick(-1, 1) : cls == 3 ? verif::pick(0, span) : verif::pick(0, 400);
        mv.push_back(n);
    }
    c.set("walk", mv);
    return c;
}
static bool nontrivial(Case const& c)
{
    if (c.get("w") < 2 || c.get("h") < 2) return false;
    // padded rows, negative steps, bit strides or sub-views: anything but the bare contiguous image
    return !c.list("prog").empty() || c.get("ap") != 0 || c.get("rk") != 0;
}

void verif_replay(Case const& c) { run_case(c); }

void verif_run(verif::Args const& a, verif::Evidence& ev)
{
    bool th = a.thorough();
    ev.rule = "rapidcheck cases = (configuration from the group's share of 28 organisations, root image with alignment or guard buffer with padding, w,h in 0..7 (9 thorough), view program of <= 3 (4) ops, optional nth_channel / "
              "color_converted<gray8> tail + 2 ops, start position, walk of <= 12 (40) moves biased to 0, +-1, +-w, +-(w+-1), multi-row, to begin/end). Inside each case: COMPLETE enumeration of (start i in 0..w*h, d in -i..w*h-i) "
              "for the 1-D iterator when w*h <= 40 (advance, distance, +=, [], all six relational operators, x_pos/y_pos, --(++it), associativity lattice), of all offset pairs of every row's x-iterator and every column's y-iterator, "
              "all nine access paths per pixel, the 1-D-traversability predicate, locator moves with relative access / cached locations / axis iterators / y_distance_to in a 5x5 neighbourhood. "
              "non-trivial: both dims >= 2 and the view is padded, stepped, sub-imaged or over a guard buffer; distinct = (cfg, root, shape, program, tail, walk).";
    int cases = th ? 400000 : 30000;
    verif::rc_search(ev, a, "nav", cases, 60, [&] { return gen_case(th); }, run_case, nontrivial, {"cfg", "rk", "w", "h", "ap", "prog", "tail", "post", "walk", "start"});
}

VERIF_MAIN(VERIF_TARGET_NAME)
