// C09 — default colour conversion keeps neutrals, range and order and composes soundly (value level).
// Engine: complete 2^24 rgb8 sweep + complete (r,a) / (c,k) planes + seeded stratified pixels for every ordered
// layout/depth pair; oracle: exact integer weights, round trip, metamorphic premultiplication, per-channel channel_convert.
#include "common/verif.hpp"

#include <boost/gil.hpp>
#include <boost/mp11.hpp>

#include <cmath>
#include <thread>

namespace gil = boost::gil;
namespace mp = boost::mp11;
using namespace boost::gil;
using verif::Case;
using verif::i64;

#ifndef VERIF_STRIDE
#define VERIF_STRIDE 1
#endif

static const double FTOL = 1.0 / 4194304.0; // 2^-22

// ------------------------------------------------------------------------------------------------ part A: 2^24 rgb8
static std::vector<unsigned char> G; // gray of every rgb8, filled by the sweep

static void check_rgb8(int r, int g, int b)
{
    rgb8_pixel_t p(r, g, b);
    gray8_pixel_t q;
    color_convert(p, q);
    int y = q[0];
    G[(std::size_t(r) << 16) | (g << 8) | b] = static_cast<unsigned char>(y);
    VCHECK(std::abs(100 * y - (30 * r + 59 * g + 11 * b)) <= 100, "rgb8->gray8 further than one unit from 0.30r+0.59g+0.11b", r, g, b, y);
    if (r == g && g == b) VCHECK(y == r, "rgb8 (v,v,v) -> gray8 is not exactly v", r, y);
    cmyk8_pixel_t c;
    color_convert(p, c);
    rgb8_pixel_t p2;
    color_convert(c, p2);
    VCHECK(std::abs(int(p2[0]) - r) <= 1 && std::abs(int(p2[1]) - g) <= 1 && std::abs(int(p2[2]) - b) <= 1, "rgb8->cmyk8->rgb8 differs by more than one level", r, g, b,
           int(c[0]), int(c[1]), int(c[2]), int(c[3]), int(p2[0]), int(p2[1]), int(p2[2]));
    // bgr layout gives the same gray and the same cmyk
    bgr8_pixel_t pb;
    get_color(pb, red_t()) = r; get_color(pb, green_t()) = g; get_color(pb, blue_t()) = b;
    gray8_pixel_t qb;
    color_convert(pb, qb);
    VCHECK(qb[0] == q[0], "bgr8->gray8 differs from rgb8->gray8", r, g, b);
}
static void check_mono_row(int r, int g) // monotone in each channel (needs the full table)
{
    for (int b = 0; b < 255; ++b)
    {
        VCHECK(G[(std::size_t(r) << 16) | (g << 8) | (b + 1)] >= G[(std::size_t(r) << 16) | (g << 8) | b], "rgb8->gray8 not monotone in blue", r, g, b);
        VCHECK(G[(std::size_t(r) << 16) | ((b + 1) << 8) | g] >= G[(std::size_t(r) << 16) | (b << 8) | g], "rgb8->gray8 not monotone in green", r, b, g);
        VCHECK(G[(std::size_t(b + 1) << 16) | (r << 8) | g] >= G[(std::size_t(b) << 16) | (r << 8) | g], "rgb8->gray8 not monotone in red", b, r, g);
    }
}

// ------------------------------------------------------------------------------------------------ generic helpers over pixel types
template <class C> struct Ch
{
    static double lo() { return double(channel_traits<C>::min_value()); }
    static double hi() { return double(channel_traits<C>::max_value()); }
    static C from_unit(double u) // u in [0,1] -> channel value (nearest)
    {
        double v = lo() + u * (hi() - lo());
        if (std::is_integral<C>::value) v = std::floor(v + 0.5);
        return C(static_cast<typename channel_traits<C>::value_type>(v));
    }
};
template <> struct Ch<float32_t>
{
    static double lo() { return 0; }
    static double hi() { return 1; }
    static float32_t from_unit(double u) { return float32_t(float(u)); }
};
template <class C> static double num(C const& c) { return double(c); }
static double num(float32_t const& c) { return double(float(c)); }

template <class P> using chan_t = typename channel_type<P>::type;
template <class P> constexpr bool is_f() { return std::is_same<chan_t<P>, float32_t>::value; }
template <class P> static bool in_range(P const& p)
{
    bool ok = true;
    static_for_each(p, [&](auto const& c) { double v = num(c); if (!(v >= Ch<chan_t<P>>::lo() && v <= Ch<chan_t<P>>::hi())) ok = false; });
    return ok;
}
template <class P> static std::string show(P const& p)
{
    std::ostringstream os;
    os << "(";
    for (std::size_t i = 0; i < num_channels<P>::value; ++i) os << (i ? "," : "") << num(p[i]);
    os << ")";
    return os.str();
}
template <class P> static bool has_alpha() { return mp::mp_contains<typename color_space_type<P>::type, alpha_t>::value; }

// pixel from unit-interval colour values; cs decided by type
template <class P> static P make_rgb(double r, double g, double b, double a = 1.0)
{
    P p;
    using C = chan_t<P>;
    get_color(p, red_t()) = Ch<C>::from_unit(r);
    get_color(p, green_t()) = Ch<C>::from_unit(g);
    get_color(p, blue_t()) = Ch<C>::from_unit(b);
    if constexpr (mp::mp_contains<typename color_space_type<P>::type, alpha_t>::value) get_color(p, alpha_t()) = Ch<C>::from_unit(a);
    return p;
}
template <class P> static P make_cmyk(double c, double m, double y, double k)
{
    P p;
    using C = chan_t<P>;
    get_color(p, cyan_t()) = Ch<C>::from_unit(c);
    get_color(p, magenta_t()) = Ch<C>::from_unit(m);
    get_color(p, yellow_t()) = Ch<C>::from_unit(y);
    get_color(p, black_t()) = Ch<C>::from_unit(k);
    return p;
}
template <class P> static P make_gray(double v)
{
    P p;
    get_color(p, gray_color_t()) = Ch<chan_t<P>>::from_unit(v);
    return p;
}
template <class P> using cs_of = typename color_space_type<P>::type;
template <class P> constexpr bool is_cs_rgb() { return std::is_same<cs_of<P>, rgb_t>::value; }
template <class P> constexpr bool is_cs_rgba() { return std::is_same<cs_of<P>, rgba_t>::value; }
template <class P> constexpr bool is_cs_cmyk() { return std::is_same<cs_of<P>, cmyk_t>::value; }
template <class P> constexpr bool is_cs_gray() { return std::is_same<cs_of<P>, gray_t>::value; }

template <class P> static bool is_white(P const& p)
{
    using C = chan_t<P>;
    auto mx = [&](auto const& c) { return num(c) == Ch<C>::hi(); };
    auto mn = [&](auto const& c) { return num(c) == Ch<C>::lo(); };
    if constexpr (is_cs_rgb<P>()) return mx(get_color(p, red_t())) && mx(get_color(p, green_t())) && mx(get_color(p, blue_t()));
    else if constexpr (is_cs_rgba<P>()) return mx(get_color(p, red_t())) && mx(get_color(p, green_t())) && mx(get_color(p, blue_t())) && mx(get_color(p, alpha_t()));
    else if constexpr (is_cs_cmyk<P>()) return mn(get_color(p, cyan_t())) && mn(get_color(p, magenta_t())) && mn(get_color(p, yellow_t())) && mn(get_color(p, black_t()));
    else return mx(get_color(p, gray_color_t()));
}
template <class P> static bool is_black(P const& p)
{
    using C = chan_t<P>;
    auto mx = [&](auto const& c) { return num(c) == Ch<C>::hi(); };
    auto mn = [&](auto const& c) { return num(c) == Ch<C>::lo(); };
    if constexpr (is_cs_rgb<P>()) return mn(get_color(p, red_t())) && mn(get_color(p, green_t())) && mn(get_color(p, blue_t()));
    else if constexpr (is_cs_rgba<P>()) return mn(get_color(p, red_t())) && mn(get_color(p, green_t())) && mn(get_color(p, blue_t())) && mx(get_color(p, alpha_t()));
    else if constexpr (is_cs_cmyk<P>())
        return mx(get_color(p, black_t())) || (mx(get_color(p, cyan_t())) && mx(get_color(p, magenta_t())) && mx(get_color(p, yellow_t())));
    else return mn(get_color(p, gray_color_t()));
}
template <class P> static std::vector<P> whites()
{
    if constexpr (is_cs_cmyk<P>()) return {make_cmyk<P>(0, 0, 0, 0)};
    else if constexpr (is_cs_gray<P>()) return {make_gray<P>(1)};
    else return {make_rgb<P>(1, 1, 1, 1)};
}
template <class P> static std::vector<P> blacks()
{
    if constexpr (is_cs_cmyk<P>()) return {make_cmyk<P>(0, 0, 0, 1), make_cmyk<P>(1, 1, 1, 1)};
    else if constexpr (is_cs_gray<P>()) return {make_gray<P>(0)};
    else return {make_rgb<P>(0, 0, 0, 1)};
}

// ------------------------------------------------------------------------------------------------ pixel type lists
using RGBish = mp::mp_list<rgb8_pixel_t, bgr8_pixel_t, rgb16_pixel_t, bgr16_pixel_t, rgb32f_pixel_t, bgr32f_pixel_t, rgb8s_pixel_t, rgb16s_pixel_t>;
using RGBAish = mp::mp_list<rgba8_pixel_t, bgra8_pixel_t, argb8_pixel_t, abgr8_pixel_t, rgba16_pixel_t, argb16_pixel_t, rgba32f_pixel_t, abgr32f_pixel_t>;
using CMYKish = mp::mp_list<cmyk8_pixel_t, cmyk16_pixel_t, cmyk32f_pixel_t>;
using GRAYish = mp::mp_list<gray8_pixel_t, gray16_pixel_t, gray32f_pixel_t, gray8s_pixel_t, gray16s_pixel_t>;
using AllPix = mp::mp_append<RGBish, RGBAish, CMYKish, GRAYish>;
constexpr std::size_t NP = mp::mp_size<AllPix>::value;

template <class P> static const char* pname();
#define PN(T) template <> const char* pname<T>() { return #T; }
PN(rgb8_pixel_t) PN(bgr8_pixel_t) PN(rgb16_pixel_t) PN(bgr16_pixel_t) PN(rgb32f_pixel_t) PN(bgr32f_pixel_t) PN(rgb8s_pixel_t) PN(rgb16s_pixel_t)
PN(rgba8_pixel_t) PN(bgra8_pixel_t) PN(argb8_pixel_t) PN(abgr8_pixel_t) PN(rgba16_pixel_t) PN(argb16_pixel_t) PN(rgba32f_pixel_t) PN(abgr32f_pixel_t)
PN(cmyk8_pixel_t) PN(cmyk16_pixel_t) PN(cmyk32f_pixel_t) PN(gray8_pixel_t) PN(gray16_pixel_t) PN(gray32f_pixel_t) PN(gray8s_pixel_t) PN(gray16s_pixel_t)

// random pixel of type P from a seed (unit values incl. extremes)
template <class P> static P random_pixel(verif::SplitMix& r)
{
    auto u = [&]() -> double {
        auto k = r.below(10);
        if (k == 0) return 0.0;
        if (k == 1) return 1.0;
        return double(r.next() >> 11) / double(1ULL << 53);
    };
    if constexpr (is_cs_cmyk<P>()) return make_cmyk<P>(u(), u(), u(), u());
    else if constexpr (is_cs_gray<P>()) return make_gray<P>(u());
    else { double a = u(), b = u(), c = u(), d = u(); return make_rgb<P>(a, b, c, d); }
}

// ------------------------------------------------------------------------------------------------ pair checks
template <class S, class D>
struct PairCheck
{
    static std::string tag() { return std::string(pname<S>()) + "->" + pname<D>(); }
    static constexpr bool signed_involved = std::is_signed<typename channel_traits<chan_t<S>>::value_type>::value && !is_f<S>();

    static void one(S const& s)
    {
        D d;
        color_convert(s, d);
        VCHECK(in_range(d), tag(), "result channel outside its range", show(s), show(d));
        // same colour space: per-channel channel_convert paired by colour name
        if constexpr (std::is_same<cs_of<S>, cs_of<D>>::value)
        {
            bool ok = true;
            mp::mp_for_each<cs_of<S>>([&](auto color) {
                using Col = decltype(color);
                auto expect = channel_convert<typename color_element_type<D, Col>::type>(get_color(s, Col()));
                if (!(num(get_color(d, Col())) == num(expect))) ok = false;
            });
            VCHECK(ok, tag(), "same-colour-space conversion is not per-channel channel_convert", show(s), show(d));
        }
        // to rgba: alpha = max or carried
        if constexpr (is_cs_rgba<D>())
        {
            using CD = chan_t<D>;
            if constexpr (is_cs_rgba<S>())
                VCHECK(num(get_color(d, alpha_t())) == num(channel_convert<CD>(get_color(s, alpha_t()))), tag(), "alpha not carried over", show(s), show(d));
            else
                VCHECK(num(get_color(d, alpha_t())) == Ch<CD>::hi(), tag(), "alpha not set to max", show(s), show(d));
        }
        // from rgba to another colour space: equals conversion of the premultiplied rgb
        if constexpr (is_cs_rgba<S>() && !is_cs_rgba<D>())
        {
            using CS = chan_t<S>;
            pixel<CS, rgb_layout_t> pm(channel_multiply(get_color(s, red_t()), get_color(s, alpha_t())), channel_multiply(get_color(s, green_t()), get_color(s, alpha_t())),
                                       channel_multiply(get_color(s, blue_t()), get_color(s, alpha_t())));
            D e;
            color_convert(pm, e);
            bool same = true;
            for (std::size_t i = 0; i < num_channels<D>::value; ++i) if (!(num(d[i]) == num(e[i]))) same = false;
            VCHECK(same, tag(), "converting from rgba differs from converting the alpha-premultiplied rgb", show(s), show(d), show(e));
        }
        // gray v -> rgb (v,v,v)
        if constexpr (is_cs_gray<S>() && (is_cs_rgb<D>() || is_cs_rgba<D>()))
        {
            auto e = channel_convert<chan_t<D>>(get_color(s, gray_color_t()));
            VCHECK(num(get_color(d, red_t())) == num(e) && num(get_color(d, green_t())) == num(e) && num(get_color(d, blue_t())) == num(e), tag(), "gray v does not map to (v,v,v)", show(s), show(d));
        }
        // rgb -> gray: within one unit of the weights (float32 precision added for >8-bit, which go through float32)
        if constexpr (is_cs_rgb<S>() && is_cs_gray<D>())
        {
            using CS = chan_t<S>;
            using CD = chan_t<D>;
            auto unit = [](auto const& c) { return (num(c) - Ch<CS>::lo()) / (Ch<CS>::hi() - Ch<CS>::lo()); };
            double w = 0.30 * unit(get_color(s, red_t())) + 0.59 * unit(get_color(s, green_t())) + 0.11 * unit(get_color(s, blue_t()));
            double range = Ch<CD>::hi() - Ch<CD>::lo();
            double expect = Ch<CD>::lo() + w * range;
            double one_unit = is_f<D>() ? 0.0 : 1.0;
            // one destination unit, one source unit expressed in destination units (coarser sources quantise first), float32 slack
            double src_unit = is_f<S>() ? 0.0 : range / (Ch<CS>::hi() - Ch<CS>::lo());
            double tol = std::max(one_unit, src_unit) + range * 4 * FTOL;
            VCHECK(std::fabs(num(get_color(d, gray_color_t())) - expect) <= tol, tag(), "rgb->gray further than one unit from 0.30r+0.59g+0.11b", show(s), show(d), expect);
        }
    }

    static void neutrals()
    {
        if constexpr (!is_cs_gray<S>() && !is_cs_gray<D>() && !signed_involved)
        {
            for (auto const& w : whites<S>())
            {
                D d;
                color_convert(w, d);
                VCHECK(is_white(d), tag(), "white does not map to white", show(w), show(d));
            }
            for (auto const& k : blacks<S>())
            {
                D d;
                color_convert(k, d);
                VCHECK(is_black(d), tag(), "black does not map to black", show(k), show(d));
            }
        }
    }

    // monotone rgb->gray along one channel for sampled lines (16-bit / float)
    static void mono(verif::SplitMix& r)
    {
        if constexpr (is_cs_rgb<S>() && is_cs_gray<D>())
        {
            using CS = chan_t<S>;
            for (int line = 0; line < 40; ++line)
            {
                double base[3] = {double(r.next() >> 11) / double(1ULL << 53), double(r.next() >> 11) / double(1ULL << 53), double(r.next() >> 11) / double(1ULL << 53)};
                int ch = int(r.below(3));
                double prev = -1e300;
                int steps = 400;
                for (int i = 0; i <= steps; ++i)
                {
                    double c[3] = {base[0], base[1], base[2]};
                    c[ch] = double(i) / steps;
                    S s = make_rgb<S>(c[0], c[1], c[2]);
                    D d;
                    color_convert(s, d);
                    double y = num(get_color(d, gray_color_t()));
                    VCHECK(y >= prev, tag(), "rgb->gray not monotone along a channel", show(s), y, prev);
                    prev = y;
                }
            }
            (void)sizeof(CS);
        }
    }

    static void run(verif::Evidence& ev, std::uint64_t seed, int n, std::size_t si, std::size_t di)
    {
        Case cur;
        cur["@pair"];
        cur.set("s", (i64)si);
        cur.set("d", (i64)di);
        std::uint64_t cnt = 0;
        try
        {
            cur.set("k", -1);
            neutrals();
            verif::SplitMix r(verif::mix64(seed, si * 131 + di));
            cur.set("k", -2);
            cur.set("seed", (i64)(seed & 0xffffffff));
            mono(r);
            verif::SplitMix r2(verif::mix64(seed, si * 977 + di * 13 + 5));
            for (int k = 0; k < n; ++k)
            {
                cur.set("k", k);
                S s = random_pixel<S>(r2);
                one(s);
                ++cnt;
            }
        }
        catch (verif::Fail const& f) { ev.fail(cur, f.what()); }
        ev.eval(cnt);
        ev.nontrivial_counter += cnt;
    }
};

using PairFn = void (*)(verif::Evidence&, std::uint64_t, int, std::size_t, std::size_t);
static PairFn g_pair[NP][NP];
static const char* g_pn[NP];
static void build_tables()
{
    mp::mp_for_each<mp::mp_iota_c<NP>>([](auto I) {
        g_pn[decltype(I)::value] = pname<mp::mp_at_c<AllPix, decltype(I)::value>>();
        mp::mp_for_each<mp::mp_iota_c<NP>>([](auto J) {
            using S = mp::mp_at_c<AllPix, decltype(I)::value>;
            using D = mp::mp_at_c<AllPix, decltype(J)::value>;
            g_pair[decltype(I)::value][decltype(J)::value] = &PairCheck<S, D>::run;
        });
    });
}

// ------------------------------------------------------------------------------------------------ complete planes
static void plane_rgba8(int r, int a)
{
    for (int variant = 0; variant < 3; ++variant)
    {
        int g = variant == 0 ? 255 - r : variant == 1 ? r : (r * 7 + 13) & 255;
        int b = variant == 0 ? r / 2 : variant == 1 ? r : (r * 3 + 101) & 255;
        rgba8_pixel_t s(r, g, b, a);
        rgb8_pixel_t e(channel_multiply(std::uint8_t(r), std::uint8_t(a)), channel_multiply(std::uint8_t(g), std::uint8_t(a)), channel_multiply(std::uint8_t(b), std::uint8_t(a)));
        rgb8_pixel_t o;
        color_convert(s, o);
        VCHECK(o == e, "rgba8->rgb8 is not the premultiplied rgb", r, g, b, a);
        gray8_pixel_t go, ge;
        color_convert(s, go);
        color_convert(e, ge);
        VCHECK(go == ge, "rgba8->gray8 differs from gray of the premultiplied rgb", r, g, b, a);
        cmyk8_pixel_t co, ce;
        color_convert(s, co);
        color_convert(e, ce);
        VCHECK(co == ce, "rgba8->cmyk8 differs from cmyk of the premultiplied rgb", r, g, b, a);
        argb8_pixel_t sa;
        get_color(sa, red_t()) = r; get_color(sa, green_t()) = g; get_color(sa, blue_t()) = b; get_color(sa, alpha_t()) = a;
        bgr8_pixel_t ob;
        color_convert(sa, ob);
        VCHECK(get_color(ob, red_t()) == e[0] && get_color(ob, green_t()) == e[1] && get_color(ob, blue_t()) == e[2], "argb8->bgr8 differs from the premultiplied rgb", r, g, b, a);
    }
    if (a == 255) // gray -> rgb whose channels have UNEQUAL depths (packed 5-6-5): each channel is the gray value in that channel's own range
    {
        using p565_t = packed_pixel_type<std::uint16_t, mp::mp_list_c<unsigned, 5, 6, 5>, rgb_layout_t>::type;
        gray8_pixel_t gs(static_cast<std::uint8_t>(r));
        p565_t d;
        color_convert(gs, d);
        auto want = [&](auto ref) { using V = typename channel_traits<decltype(ref)>::value_type; return int(channel_convert<V>(static_cast<std::uint8_t>(r))); };
        int d0 = int(at_c<0>(d)), d1 = int(at_c<1>(d)), d2 = int(at_c<2>(d));
        VCHECK(d0 == want(at_c<0>(d)) && d1 == want(at_c<1>(d)) && d2 == want(at_c<2>(d)), "gray8->rgb565: a channel is not the gray value in its own range", r, d0, d1, d2);
        if (r == 255) VCHECK(d0 == 31 && d1 == 63 && d2 == 31, "gray8 white -> rgb565 is not white", d0, d1, d2);
        if (r == 0) VCHECK(d0 == 0 && d1 == 0 && d2 == 0, "gray8 black -> rgb565 is not black", d0, d1, d2);
    }
}
static void plane_cmyk8(int c, int k, int axis)
{
    cmyk8_pixel_t s(axis == 0 ? c : 0, axis == 1 ? c : 0, axis == 2 ? c : 0, k);
    rgb8_pixel_t o;
    color_convert(s, o);
    // r = 1 - min(1, c*(1-k)+k): within one level of the exact value, and never outside; the other two channels = 1 - k
    double er = 255.0 - std::min(255.0, c * (255.0 - k) / 255.0 + k);
    VCHECK(std::fabs(double(o[axis]) - er) <= 1.0, "cmyk8->rgb8 further than one level from 1-min(1,c(1-k)+k)", c, k, axis, int(o[axis]));
    for (int other = 0; other < 3; ++other)
        if (other != axis) VCHECK(int(o[other]) == 255 - k, "cmyk8->rgb8: channel with zero ink is not 1-k", c, k, other, int(o[other]));
}

void verif_replay(Case const& c)
{
    build_tables();
    G.assign(std::size_t(1) << 24, 0);
    if (c.has("@rgb8"))
    {
        int r = (int)c.get("rgb", 0, 0), g = (int)c.get("rgb", 0, 1), b = (int)c.get("rgb", 0, 2);
        for (int dr = -1; dr <= 1; ++dr) for (int dg = -1; dg <= 1; ++dg) for (int db = -1; db <= 1; ++db)
        {
            int rr = r + dr, gg = g + dg, bb = b + db;
            if (rr < 0 || rr > 255 || gg < 0 || gg > 255 || bb < 0 || bb > 255) continue;
            rgb8_pixel_t p(rr, gg, bb); gray8_pixel_t q; color_convert(p, q);
            G[(std::size_t(rr) << 16) | (gg << 8) | bb] = q[0];
        }
        check_rgb8(r, g, b);
        auto at = [&](int rr, int gg, int bb) { return G[(std::size_t(rr) << 16) | (gg << 8) | bb]; };
        if (r < 255) VCHECK(at(r + 1, g, b) >= at(r, g, b), "not monotone in red", r, g, b);
        if (g < 255) VCHECK(at(r, g + 1, b) >= at(r, g, b), "not monotone in green", r, g, b);
        if (b < 255) VCHECK(at(r, g, b + 1) >= at(r, g, b), "not monotone in blue", r, g, b);
        if (r > 0) VCHECK(at(r - 1, g, b) <= at(r, g, b), "not monotone in red", r, g, b);
        if (g > 0) VCHECK(at(r, g - 1, b) <= at(r, g, b), "not monotone in green", r, g, b);
        if (b > 0) VCHECK(at(r, g, b - 1) <= at(r, g, b), "not monotone in blue", r, g, b);
    }
    else if (c.has("@mono"))
    {
        int r = (int)c.get("rg", 0, 0), g = (int)c.get("rg", 0, 1);
        for (int x = 0; x < 256; ++x) for (int y = 0; y < 256; ++y)
        {
            for (int k = 0; k < 3; ++k)
            {
                int rr = k == 2 ? y : r, gg = k == 0 ? g : (k == 1 ? y : r), bb = k == 0 ? y : g;
                if (k == 0) { rr = r; gg = g; bb = y; } else if (k == 1) { rr = r; gg = y; bb = g; } else { rr = y; gg = r; bb = g; }
                rgb8_pixel_t p(rr, gg, bb); gray8_pixel_t q; color_convert(p, q);
                G[(std::size_t(rr) << 16) | (gg << 8) | bb] = q[0];
            }
            (void)x;
            break;
        }
        check_mono_row(r, g);
    }
    else if (c.has("@rgba8")) plane_rgba8((int)c.get("ra", 0, 0), (int)c.get("ra", 0, 1));
    else if (c.has("@cmyk8")) plane_cmyk8((int)c.get("ck", 0, 0), (int)c.get("ck", 0, 1), (int)c.get("axis"));
    else if (c.has("@pair"))
    {
        verif::Evidence ev;
        std::size_t s = (std::size_t)c.get("s"), d = (std::size_t)c.get("d");
        if (s >= NP || d >= NP) throw verif::Fail("bad pair");
        // the failing pixel is a function of (seed, pair, k): re-run the pair's stream
        g_pair[s][d](ev, (std::uint64_t)c.get("fullseed", c.get("seed")), 4000, s, d);
        if (ev.n_failures()) throw verif::Fail(ev.failures[0].second);
    }
    else throw verif::Fail("unknown case");
}

void verif_run(verif::Args const& a, verif::Evidence& ev)
{
    build_tables();
    G.assign(std::size_t(1) << 24, 0);
    ev.rule = "A: all 2^24 rgb8 pixels (gray within 1 of the weights by exact integers, exact on greys, monotone per channel via the full table, rgb->cmyk->rgb within 1, bgr agrees); "
              "B: complete (r,a) planes of rgba8/argb8 x 3 colour variants (premultiplication, exact equality) and complete (ink,k) planes of cmyk8 per ink; "
              "C: every ordered pair of 24 pixel types (rgb/bgr, rgba/bgra/argb/abgr, cmyk, gray x 8/16/32f/8s/16s) x seeded pixels (extremes weighted): range, per-channel channel_convert for same colour space, "
              "alpha max/carried, premultiplication metamorphic, gray->(v,v,v) (also into packed rgb565, each channel in its own range), rgb->gray weights, neutrals black/white among rgb/rgba/cmyk, monotone lines. stride " + std::to_string(VERIF_STRIDE) +
              " on red in this build. non-trivial: rgb8 pixel not grey and not an extreme; plane/pair cases all count; distinct = the input itself.";
    ev.exhaustive = false;

    std::atomic<int> next_r{0};
    std::vector<std::thread> th;
    for (int t = 0; t < a.threads; ++t)
        th.emplace_back([&] {
            for (;;)
            {
                int r = (next_r += VERIF_STRIDE) - VERIF_STRIDE;
                if (r > 255) return;
                std::uint64_t n = 0, nt = 0;
                Case cur;
                cur["@rgb8"];
                try
                {
                    for (int g = 0; g < 256; ++g)
                        for (int b = 0; b < 256; ++b)
                        {
                            cur.set("rgb", {r, g, b});
                            check_rgb8(r, g, b);
                            ++n;
                            if (!(r == g && g == b) && r > 0 && r < 255) ++nt;
                        }
                }
                catch (verif::Fail const& f) { ev.fail(cur, f.what()); }
                ev.eval(n);
                ev.nontrivial_counter += nt;
            }
        });
    for (auto& t : th) t.join();
    th.clear();
    if (VERIF_STRIDE == 1)
    {
        std::atomic<int> next2{0};
        for (int t = 0; t < a.threads; ++t)
            th.emplace_back([&] {
                for (;;)
                {
                    int r = next2++;
                    if (r > 255) return;
                    Case cur;
                    cur["@mono"];
                    try { for (int g = 0; g < 256; ++g) { cur.set("rg", {r, g}); check_mono_row(r, g); } }
                    catch (verif::Fail const& f) { ev.fail(cur, f.what()); }
                    ev.eval(256 * 255 * 3);
                }
            });
        for (auto& t : th) t.join();
        th.clear();
    }
    ev.classify("rgb8_sweep_done", 1);
    {
        Case cur;
        cur["@rgba8"];
        std::uint64_t n = 0;
        try { for (int r = 0; r < 256; ++r) for (int al = 0; al < 256; ++al) { cur.set("ra", {r, al}); plane_rgba8(r, al); ++n; } }
        catch (verif::Fail const& f) { ev.fail(cur, f.what()); }
        ev.eval(n * 3);
        ev.nontrivial_counter += n * 3;
        cur = Case();
        cur["@cmyk8"];
        n = 0;
        try { for (int ax = 0; ax < 3; ++ax) for (int c = 0; c < 256; ++c) for (int k = 0; k < 256; ++k) { cur.set("ck", {c, k}); cur.set("axis", ax); plane_cmyk8(c, k, ax); ++n; } }
        catch (verif::Fail const& f) { ev.fail(cur, f.what()); }
        ev.eval(n);
        ev.nontrivial_counter += n;
    }
    // pairs
    int per_pair = a.thorough() ? 20000 : 2500;
    std::atomic<std::size_t> nextp{0};
    for (int t = 0; t < a.threads; ++t)
        th.emplace_back([&] {
            for (;;)
            {
                std::size_t i = nextp++;
                if (i >= NP * NP) return;
                g_pair[i / NP][i % NP](ev, a.seed, per_pair / VERIF_STRIDE + 10, i / NP, i % NP);
            }
        });
    for (auto& t : th) t.join();
    ev.classify("pairs", NP * NP);
    { Case c; c["@rgb8"]; c.set("rgb", {200, 17, 93}); ev.sample(c); }
    { Case c; c["@rgba8"]; c.set("ra", {180, 77}); ev.sample(c); }
    { Case c; c["@cmyk8"]; c.set("ck", {140, 60}); c.set("axis", 1); ev.sample(c); }
    { Case c; c["@pair"]; c.set("s", 9); c.set("d", 16); c.set("k", 3); ev.sample("{\"pair\":\"" + std::string(g_pn[9]) + "->" + g_pn[16] + "\",\"case\":" + c.json() + "}"); }
    { Case c; c["@pair"]; c.set("s", 4); c.set("d", 20); c.set("k", 11); ev.sample("{\"pair\":\"" + std::string(g_pn[4]) + "->" + g_pn[20] + "\",\"case\":" + c.json() + "}"); }
}

VERIF_MAIN(VERIF_TARGET_NAME)
