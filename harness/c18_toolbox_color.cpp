// C18 — toolbox colour spaces round-trip with RGB and stay in range.
// Engine: complete 2^24 rgb8 sweep per colour space + boundary grids (hue sectors, saturation/value extremes) +
// complete gray_alpha / cmyka planes. Oracle: round trip with fixed tolerances, documented ranges, metamorphic hue periodicity.
#include "common/verif.hpp"

#include <boost/gil.hpp>
#include <boost/gil/extension/toolbox/color_converters.hpp>
#include <boost/gil/extension/toolbox/color_spaces.hpp>
#include <boost/gil/extension/toolbox/color_spaces/ycbcr.hpp>

#include <cmath>
#include <thread>

using namespace boost::gil;
using verif::Case;
using verif::i64;

#ifndef VERIF_STRIDE
#define VERIF_STRIDE 1
#endif

static bool g_known_lab = false, g_known_709 = false;

enum Space { HSV = 0, HSL, XYZ, LAB, YCC601, YCC709, CMYKA, NSPACE };
static const char* space_name[] = {"hsv", "hsl", "xyz", "lab", "ycbcr601", "ycbcr709", "cmyka"};
static const int space_tol[] = {0, 0, 0, 1, 3, 3, 1};

template <class Mid>
static void rt_float(int r, int g, int b, int tol, const char* nm, double const* lo, double const* hi)
{
    rgb8_pixel_t p(r, g, b);
    Mid m;
    color_convert(p, m);
    for (int i = 0; i < 3; ++i)
    {
        double v = double(float(m[i]));
        VCHECK(v >= lo[i] && v <= hi[i], nm, "intermediate channel outside its documented range", r, g, b, i, v);
    }
    rgb8_pixel_t q;
    color_convert(m, q);
    VCHECK(std::abs(int(q[0]) - r) <= tol && std::abs(int(q[1]) - g) <= tol && std::abs(int(q[2]) - b) <= tol, nm, "round trip exceeds the tolerance", r, g, b, "->",
           double(float(m[0])), double(float(m[1])), double(float(m[2])), "->", int(q[0]), int(q[1]), int(q[2]));
}
template <class Mid>
static void rt_int(int r, int g, int b, int tol, const char* nm)
{
    rgb8_pixel_t p(r, g, b);
    Mid m;
    color_convert(p, m);
    rgb8_pixel_t q;
    color_convert(m, q);
    VCHECK(std::abs(int(q[0]) - r) <= tol && std::abs(int(q[1]) - g) <= tol && std::abs(int(q[2]) - b) <= tol, nm, "round trip exceeds the tolerance", r, g, b, "->", int(m[0]),
           int(m[1]), int(m[2]), "->", int(q[0]), int(q[1]), int(q[2]));
}

static void check_space(int sp, int r, int g, int b)
{
    static const double eps = 1e-4;
    static const double lo01[3] = {-eps, -eps, -eps}, hi01[3] = {1 + eps, 1 + eps, 1 + eps};
    static const double loxyz[3] = {-eps, -eps, -eps}, hixyz[3] = {0.95047 + 1e-3, 1 + 1e-3, 1.08883 + 1e-3};
    static const double lolab[3] = {-0.01, -130, -130}, hilab[3] = {100.01, 130, 130};
    switch (sp)
    {
    case HSV: rt_float<hsv32f_pixel_t>(r, g, b, 0, "hsv", lo01, hi01); break;
    case HSL: rt_float<hsl32f_pixel_t>(r, g, b, 0, "hsl", lo01, hi01); break;
    case XYZ: rt_float<xyz32f_pixel_t>(r, g, b, 0, "xyz", loxyz, hixyz); break;
    case LAB: rt_float<lab32f_pixel_t>(r, g, b, 1, "lab", lolab, hilab); break;
    case YCC601: rt_int<ycbcr_601_8_pixel_t>(r, g, b, 3, "ycbcr601"); break;
    case YCC709: rt_int<ycbcr_709_8_pixel_t>(r, g, b, 3, "ycbcr709"); break;
    case CMYKA:
    {
        // there is no rgb->cmyka converter in the toolbox; the cmyka leg is: core rgb->cmyk, append alpha, toolbox cmyka->rgba
        rgb8_pixel_t p(r, g, b);
        cmyk8_pixel_t c;
        color_convert(p, c);
        int al = (r * 7 + g * 3 + b) & 255;
        cmyka8_pixel_t ca(c[0], c[1], c[2], c[3], al);
        rgba8_pixel_t o;
        color_convert(ca, o);
        VCHECK(std::abs(int(o[0]) - r) <= 1 && std::abs(int(o[1]) - g) <= 1 && std::abs(int(o[2]) - b) <= 1, "cmyka", "rgb8->cmyk->cmyka->rgba differs by more than one level", r, g, b,
               int(o[0]), int(o[1]), int(o[2]));
        rgb8_pixel_t e;
        color_convert(c, e);
        VCHECK(int(o[0]) == int(e[0]) && int(o[1]) == int(e[1]) && int(o[2]) == int(e[2]) && int(o[3]) == 255, "cmyka", "cmyka->rgba is not core cmyk->rgb with alpha=max", r, g, b);
        break;
    }
    default: throw verif::Fail("bad space");
    }
}

// ------------------------------------------------------------------------------------------------ hue / saturation grids
static std::vector<float> hue_grid()
{
    std::vector<float> v;
    for (int k = 0; k <= 6; ++k)
    {
        float h = float(k) / 6.0f;
        v.push_back(h);
        if (h > 0) v.push_back(std::nextafterf(h, 0.0f));
        if (h < 1) v.push_back(std::nextafterf(h, 2.0f));
        if (k < 6) { v.push_back(h + 1.0f / 12.0f); v.push_back(h + 0.03f); }
    }
    v.push_back(0.9999999f);
    std::sort(v.begin(), v.end());
    v.erase(std::unique(v.begin(), v.end()), v.end());
    return v;
}
static std::vector<float> sv_grid()
{
    return {0.0f, std::numeric_limits<float>::denorm_min(), 1e-6f, 0.0002f, 0.25f, 0.5f, 0.75f, std::nextafterf(1.0f, 0.0f), 1.0f};
}
template <class Pix>
static void check_hue_point(float h, float s, float v, const char* nm)
{
    Pix src(h, s, v);
    rgb32f_pixel_t o;
    color_convert(src, o);
    for (int i = 0; i < 3; ++i)
    {
        float c = float(o[i]);
        VCHECK(c >= -1e-5f && c <= 1.0f + 1e-5f, nm, "-> rgb32f channel outside [0,1]", h, s, v, i, c);
    }
    rgb8_pixel_t o8;
    color_convert(src, o8);
    if (h == 1.0f)
    {
        Pix src0(0.0f, s, v);
        rgb8_pixel_t z8;
        color_convert(src0, z8);
        VCHECK(o8 == z8, nm, "hue 1 does not denote the same colour as hue 0", s, v, int(o8[0]), int(o8[1]), int(o8[2]), int(z8[0]), int(z8[1]), int(z8[2]));
    }
    if (s == 0.0f)
    {
        // grey: independent of hue, r=g=b
        VCHECK(o8[0] == o8[1] && o8[1] == o8[2], nm, "saturation 0 is not a grey", h, v, int(o8[0]), int(o8[1]), int(o8[2]));
        Pix other(0.37f, 0.0f, v);
        rgb8_pixel_t g8;
        color_convert(other, g8);
        VCHECK(o8 == g8, nm, "grey depends on hue", h, v);
    }
}
template <class Pix>
static void check_hue_continuity(float hlo, float hhi, float s, float v, const char* nm)
{
    // both sides of a sector boundary give the same rgb8 within one level
    Pix a(hlo, s, v), b(hhi, s, v);
    rgb8_pixel_t oa, ob;
    color_convert(a, oa);
    color_convert(b, ob);
    for (int i = 0; i < 3; ++i) VCHECK(std::abs(int(oa[i]) - int(ob[i])) <= 1, nm, "discontinuity across a hue sector boundary", hlo, hhi, s, v, i, int(oa[i]), int(ob[i]));
}

// ------------------------------------------------------------------------------------------------ gray_alpha, luminance
static void check_gray_alpha8(int g, int al)
{
    gray_alpha8_pixel_t ga(g, al);
    rgba8_pixel_t o;
    color_convert(ga, o);
    VCHECK(int(o[0]) == g && int(o[1]) == g && int(o[2]) == g && int(o[3]) == al, "gray_alpha8 -> rgba8 does not carry gray and alpha", g, al, int(o[0]), int(o[3]));
    int pm = channel_multiply(std::uint8_t(g), std::uint8_t(al));
    rgb8_pixel_t o3;
    color_convert(ga, o3);
    VCHECK(int(o3[0]) == pm && int(o3[1]) == pm && int(o3[2]) == pm, "gray_alpha8 -> rgb8 is not the premultiplied gray", g, al, int(o3[0]));
    gray8_pixel_t og;
    color_convert(ga, og);
    VCHECK(int(og[0]) == pm, "gray_alpha8 -> gray8 is not the premultiplied gray", g, al, int(og[0]));
    rgba16_pixel_t o16;
    color_convert(ga, o16);
    VCHECK(int(o16[0]) == g * 257 && int(o16[3]) == al * 257, "gray_alpha8 -> rgba16 does not carry gray and alpha", g, al);
}
static void check_gray_alpha16(int g, int al)
{
    gray_alpha16_pixel_t ga(g, al);
    rgba16_pixel_t o;
    color_convert(ga, o);
    VCHECK(int(o[0]) == g && int(o[1]) == g && int(o[2]) == g && int(o[3]) == al, "gray_alpha16 -> rgba16 does not carry gray and alpha", g, al);
    rgba8_pixel_t o8;
    color_convert(ga, o8);
    VCHECK(int(o8[3]) == int(channel_convert<std::uint8_t>(std::uint16_t(al))) && int(o8[0]) == int(channel_convert<std::uint8_t>(std::uint16_t(g))), "gray_alpha16 -> rgba8", g, al);
    int pm = channel_multiply(std::uint16_t(g), std::uint16_t(al));
    gray16_pixel_t og;
    color_convert(ga, og);
    VCHECK(int(og[0]) == pm, "gray_alpha16 -> gray16 is not the premultiplied gray", g, al);
}
static void check_luminance(int r, int g, int b)
{
    using rgbd = pixel<double, rgb_layout_t>;
    using grayd = pixel<double, gray_layout_t>;
    rgbd s{static_cast<double>(r), static_cast<double>(g), static_cast<double>(b)};
    grayd d;
    color_convert(s, d);
    double expect = 0.30 * r + 0.59 * g + 0.11 * b;
    VCHECK(std::fabs(double(d[0]) - expect) <= 1e-9 * (1 + expect), "luminance of a double pixel is not 0.30r+0.59g+0.11b", r, g, b, double(d[0]));
    gray8_pixel_t core;
    color_convert(rgb8_pixel_t(r, g, b), core);
    VCHECK(std::fabs(double(d[0]) - double(core[0])) <= 1.0, "luminance converter disagrees with the core rgb->gray weights by more than one level", r, g, b, double(d[0]), int(core[0]));
}
static void check_cmyka_plane(int c, int k, int axis, int al)
{
    cmyka8_pixel_t s(axis == 0 ? c : 17, axis == 1 ? c : 0, axis == 2 ? c : 201, k, al);
    rgba8_pixel_t o;
    color_convert(s, o);
    cmyk8_pixel_t s4(s[0], s[1], s[2], s[3]);
    rgb8_pixel_t e;
    color_convert(s4, e);
    VCHECK(int(o[0]) == int(e[0]) && int(o[1]) == int(e[1]) && int(o[2]) == int(e[2]) && int(o[3]) == 255, "cmyka8->rgba8 is not core cmyk->rgb with alpha=max", c, k, axis, al);
    cmyka16_pixel_t d16;
    color_convert(s, d16);
    for (int i = 0; i < 5; ++i) VCHECK(int(d16[i]) == int(s[i]) * 257, "cmyka8->cmyka16 is not per-channel channel_convert", i);
}

// ------------------------------------------------------------------------------------------------
void verif_replay(Case const& c)
{
    if (c.has("@rt")) check_space((int)c.get("space"), (int)c.get("rgb", 0, 0), (int)c.get("rgb", 0, 1), (int)c.get("rgb", 0, 2));
    else if (c.has("@hue"))
    {
        auto f = [&](int i) { std::uint32_t u = (std::uint32_t)c.get("hsv", 0, i); float x; std::memcpy(&x, &u, 4); return x; };
        if (c.get("kind") == 0) check_hue_point<hsv32f_pixel_t>(f(0), f(1), f(2), "hsv"); else check_hue_point<hsl32f_pixel_t>(f(0), f(1), f(2), "hsl");
    }
    else if (c.has("@huecont"))
    {
        auto f = [&](int i) { std::uint32_t u = (std::uint32_t)c.get("v", 0, i); float x; std::memcpy(&x, &u, 4); return x; };
        if (c.get("kind") == 0) check_hue_continuity<hsv32f_pixel_t>(f(0), f(1), f(2), f(3), "hsv"); else check_hue_continuity<hsl32f_pixel_t>(f(0), f(1), f(2), f(3), "hsl");
    }
    else if (c.has("@ga8")) check_gray_alpha8((int)c.get("ga", 0, 0), (int)c.get("ga", 0, 1));
    else if (c.has("@ga16")) check_gray_alpha16((int)c.get("ga", 0, 0), (int)c.get("ga", 0, 1));
    else if (c.has("@lum")) check_luminance((int)c.get("rgb", 0, 0), (int)c.get("rgb", 0, 1), (int)c.get("rgb", 0, 2));
    else if (c.has("@cmyka")) check_cmyka_plane((int)c.get("v", 0, 0), (int)c.get("v", 0, 1), (int)c.get("v", 0, 2), (int)c.get("v", 0, 3));
    else throw verif::Fail("unknown case");
}

static i64 fb(float f) { std::uint32_t u; std::memcpy(&u, &f, 4); return u; }

void verif_run(verif::Args const& a, verif::Evidence& ev)
{
    g_known_lab = a.is_known("F11");
    g_known_709 = a.is_known("F12");
    ev.rule = "for each of hsv, hsl, xyz (exact), lab (<=1), ycbcr601/709 (<=3), cmyka leg (<=1): all 2^24 rgb8 pixels -> space -> rgb8, intermediate channels in range "
              "(hue, saturation, value/lightness in [0,1] +-1e-4; xyz within the white point; L in [0,100]); hsv/hsl -> rgb on the grid hue in {k/6, +-1ulp, k/6+1/12, k/6+0.03, 0.9999999, 1} x "
              "s,v/l in {0, denorm, 1e-6, 2e-4, .25, .5, .75, 1-ulp, 1}: output in [0,1], hue 1 == hue 0, s=0 is a hue-independent grey, continuity across sector boundaries; "
              "complete (gray,alpha) plane of gray_alpha8 and a lattice of gray_alpha16; luminance of double pixels on a lattice; complete (ink,k) planes of cmyka8. stride " +
              std::to_string(VERIF_STRIDE) + " on red in this build. non-trivial: saturated non-grey pixel (r,g,b not all equal) or any grid point; distinct = (space, pixel).";
    ev.exhaustive = false;

    std::atomic<int> next{0};
    std::vector<std::thread> th;
    for (int t = 0; t < a.threads; ++t)
        th.emplace_back([&] {
            for (;;)
            {
                int job = next++;
                int sp = job / 256, r = job % 256;
                if (sp >= NSPACE) return;
                if (r % VERIF_STRIDE) continue;
                if (ev.n_failures() >= 5) return;
                std::uint64_t n = 0, nt = 0;
                Case cur;
                cur["@rt"];
                cur.set("space", sp);
                try
                {
                    for (int g = 0; g < 256; ++g)
                        for (int b = 0; b < 256; ++b)
                        {
                            cur.set("rgb", {r, g, b});
                            check_space(sp, r, g, b);
                            ++n;
                            if (!(r == g && g == b)) ++nt;
                        }
                }
                catch (verif::Fail const& f) { ev.fail(cur, f.what()); }
                ev.eval(n);
                ev.nontrivial_counter += nt;
                ev.classify(std::string("rt:") + space_name[sp], n);
            }
        });
    for (auto& t : th) t.join();

    {
        auto hs = hue_grid();
        auto sv = sv_grid();
        std::uint64_t n = 0;
        Case cur;
        try
        {
            for (int kind = 0; kind < 2; ++kind)
            {
                for (float h : hs) for (float s : sv) for (float v : sv)
                {
                    cur = Case(); cur["@hue"]; cur.set("kind", kind); cur.set("hsv", {fb(h), fb(s), fb(v)});
                    if (kind == 0) check_hue_point<hsv32f_pixel_t>(h, s, v, "hsv"); else check_hue_point<hsl32f_pixel_t>(h, s, v, "hsl");
                    ++n;
                }
                for (int k = 1; k <= 5; ++k) for (float s : sv) for (float v : sv)
                {
                    float h = float(k) / 6.0f;
                    float lo = std::nextafterf(h, 0.0f), hi = std::nextafterf(h, 2.0f);
                    cur = Case(); cur["@huecont"]; cur.set("kind", kind); cur.set("v", {fb(lo), fb(hi), fb(s), fb(v)});
                    if (kind == 0) check_hue_continuity<hsv32f_pixel_t>(lo, hi, s, v, "hsv"); else check_hue_continuity<hsl32f_pixel_t>(lo, hi, s, v, "hsl");
                    cur.set("v", {fb(lo), fb(h), fb(s), fb(v)});
                    if (kind == 0) check_hue_continuity<hsv32f_pixel_t>(lo, h, s, v, "hsv"); else check_hue_continuity<hsl32f_pixel_t>(lo, h, s, v, "hsl");
                    n += 2;
                }
            }
        }
        catch (verif::Fail const& f) { ev.fail(cur, f.what()); }
        ev.eval(n);
        ev.nontrivial_counter += n;
        ev.classify("hue_grid", n);
        { Case c; c["@hue"]; c.set("kind", 0); c.set("hsv", {fb(1.0f), fb(1.0f), fb(1.0f)}); ev.sample(c); }
    }
    {
        std::uint64_t n = 0;
        Case cur;
        try
        {
            for (int g = 0; g < 256; ++g) for (int al = 0; al < 256; ++al) { cur = Case(); cur["@ga8"]; cur.set("ga", {g, al}); check_gray_alpha8(g, al); ++n; }
            for (int g = 0; g < 65536; g += 251) for (int al = 0; al < 65536; al += 509) { cur = Case(); cur["@ga16"]; cur.set("ga", {g, al}); check_gray_alpha16(g, al); ++n; }
            for (int g : {0, 1, 65534, 65535}) for (int al : {0, 1, 32767, 32768, 65534, 65535}) { cur = Case(); cur["@ga16"]; cur.set("ga", {g, al}); check_gray_alpha16(g, al); ++n; }
            for (int r = 0; r < 256; r += 5) for (int g = 0; g < 256; g += 3) for (int b = 0; b < 256; b += 7) { cur = Case(); cur["@lum"]; cur.set("rgb", {r, g, b}); check_luminance(r, g, b); ++n; }
            for (int ax = 0; ax < 3; ++ax) for (int c = 0; c < 256; ++c) for (int k = 0; k < 256; ++k)
            {
                int al = (c * 13 + k * 7) & 255;
                cur = Case(); cur["@cmyka"]; cur.set("v", {c, k, ax, al}); check_cmyka_plane(c, k, ax, al); ++n;
            }
        }
        catch (verif::Fail const& f) { ev.fail(cur, f.what()); }
        ev.eval(n);
        ev.nontrivial_counter += n;
        ev.classify("gray_alpha_lum_cmyka", n);
    }
    { Case c; c["@rt"]; c.set("space", LAB); c.set("rgb", {3, 200, 77}); ev.sample(c); }
    { Case c; c["@rt"]; c.set("space", HSL); c.set("rgb", {255, 0, 128}); ev.sample(c); }
    { Case c; c["@rt"]; c.set("space", YCC709); c.set("rgb", {12, 250, 9}); ev.sample(c); }
    { Case c; c["@ga8"]; c.set("ga", {100, 200}); ev.sample(c); }
}

VERIF_MAIN(VERIF_TARGET_NAME)
