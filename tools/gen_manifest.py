#!/usr/bin/env python3
"""Writes /verif/MANIFEST.json from harness/targets.py (claimed properties) and the texts below."""
import json, os, sys
VERIF = os.path.dirname(os.path.dirname(os.path.abspath(__file__)))
sys.path.insert(0, os.path.join(VERIF, "harness"))
from targets import PROPERTIES
from manifest_texts import TEXTS, NOT_APPLICABLE_REASON

all_ids = [json.loads(l)["id"] for l in open(os.path.join(VERIF, "properties.jsonl"))]
checks = []
for pid in all_ids:
    if pid not in PROPERTIES:
        continue
    t = TEXTS[pid]
    checks.append({
        "property_id": pid,
        "quick_cmd": "./check %s --tier quick" % pid,
        "thorough_cmd": "./check %s --tier thorough" % pid,
        "evidence_file": "/verif/evidence/%s.json" % pid,
        "replay_cmd_template": "./check %s --replay {path}" % pid,
        "engine": t.get("engine", "rapidcheck + enumeration harnesses built by ./check"),
        "level_claimed": {"category": PROPERTIES[pid].get("level", "exploration"), "text": t["level_text"], "design_ref": t.get("design_ref", "DESIGN.md §2 " + pid)},
        "level_note": t["level_note"],
        "technique": t["technique"],
    })
na = [{"property_id": pid, "reason": NOT_APPLICABLE_REASON.get(pid, "check not built yet in this revision of /verif (planned in DESIGN.md §2); nothing is claimed for it")}
      for pid in all_ids if pid not in PROPERTIES]
m = {
    "version": 1,
    "setup_cmd": "./check --setup",
    "hooks": {
        "guard": "BOOST_GIL_VERIF",
        "enable": "harnesses are compiled with -DBOOST_GIL_VERIF against /repo/include; no hook code exists in /repo (header-only library, everything is reachable through public template parameters)",
        "baseline_off_cmd": "cmake --build /repo/_build -j16 && ctest --test-dir /repo/_build -j8 --timeout 900",
        "source_commits": [],
        "add_only": True,
    },
    "engines": [
        {"name": "check", "path": "/verif/check", "serves_properties": [c["property_id"] for c in checks],
         "kind_free_text": "python driver: rebuilds each property's harness from /repo/include, replays committed cases, runs the generated search (rapidcheck / complete enumeration / libFuzzer), shrinks, writes evidence"},
    ],
    "checks": checks,
    "not_applicable": na,
    "notes": "All checks are property-based tests or fuzzers with an explicit oracle; see DESIGN.md. Genuine defects repaired in /repo are listed under 'fixed' in known_findings.json, recorded ones under 'findings'.",
}
json.dump(m, open(os.path.join(VERIF, "MANIFEST.json"), "w"), indent=1)
print("MANIFEST.json:", len(checks), "checks,", len(na), "not_applicable")
