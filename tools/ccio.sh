#!/bin/bash
src=$1; out=$2; shift 2
clang++ -std=gnu++17 -g -O1 -fsanitize=address,undefined -fno-sanitize-recover=undefined -fno-sanitize=pointer-overflow -I${INC:-/repo/include} -I/verif/harness "$@" $src -o $out -lrapidcheck -lpng -ljpeg -ltiffxx -ltiff -lz -pthread 2>&1 | grep -E "error:" | cut -c1-400 | head -${NERR:-8}
