#!/bin/bash
# usage: run_all.sh [quick|thorough] [seed]   -- runs every registered check in sequence, prints one line per property, keeps full logs under .build/run_all/
tier=${1:-quick}; seed=${2:-1}
cd "$(dirname "$0")/.." || exit 1
mkdir -p .build/run_all
rc_all=0
for id in $(python3 -c "import json;print(' '.join(c['property_id'] for c in json.load(open('MANIFEST.json'))['checks']))"); do
  t0=$(date +%s)
  ./check $id --tier $tier --seed $seed > .build/run_all/$id.$tier.$seed.log 2>&1; rc=$?
  t1=$(date +%s)
  echo "$id tier=$tier seed=$seed exit=$rc wall=$((t1-t0))s $(grep -c '^VIOLATION' .build/run_all/$id.$tier.$seed.log) violations, $(grep -c '^KNOWN-FINDING' .build/run_all/$id.$tier.$seed.log) known; $(grep '^\[done\]' .build/run_all/$id.$tier.$seed.log | cut -c1-160)"
  [ $rc -ne 0 ] && rc_all=1
done
exit $rc_all
