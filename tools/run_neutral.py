#!/usr/bin/env python3
"""False-alarm test: applies behaviour-preserving refactorings (neutral/<area>/n*.diff) to /repo one at a time, runs the quick tier of
the checks of that area, and restores /repo.  Every check must stay green; a VIOLATION here is a false alarm of the machinery (or the
refactoring is not neutral - to be decided by reading the case).  Writes neutral/RESULTS.md.
usage: run_neutral.py [area...]"""
import json, os, re, subprocess, sys, time

VERIF = os.path.dirname(os.path.dirname(os.path.abspath(__file__)))
AREAS = {"N1": ["C01", "C02", "C03", "C04", "C05", "C08"], "N2": ["C05", "C06", "C07", "C08", "C09", "C18"], "N3": ["C10", "C11", "C12", "C13", "C01"],
         "N4": ["C14", "C15", "C16", "C17", "C19", "C20"],
         "M1": ["C01", "C02", "C03", "C04", "C05", "C08"], "M2": ["C11", "C12", "C13"], "M3": ["C06", "C07", "C09", "C14", "C16", "C18"]}
areas = sys.argv[1:] or sorted(AREAS)
st = subprocess.run("git -C /repo status --porcelain --untracked-files=no", shell=True, stdout=subprocess.PIPE).stdout.decode().strip()
if st:
    sys.exit("/repo has uncommitted changes to tracked files; refusing to run")
rj = os.path.join(VERIF, "neutral", "results.json")
results = json.load(open(rj)) if os.path.exists(rj) else {}
for a in areas:
    d = os.path.join(VERIF, "neutral", a)
    for f in sorted(os.listdir(d)):
        if not f.endswith(".diff"):
            continue
        key = a + "/" + f
        r = subprocess.run("git -C /repo apply %s" % os.path.join(d, f), shell=True, stdout=subprocess.PIPE, stderr=subprocess.STDOUT)
        if r.returncode:
            results[key] = {"error": "does not apply: " + r.stdout.decode()[-200:]}
            subprocess.run("git -C /repo checkout -- .", shell=True)
            continue
        entry = {}
        try:
            for p in AREAS[a]:
                t0 = time.time()
                rr = subprocess.run("./check %s --tier quick" % p, shell=True, cwd=VERIF, stdout=subprocess.PIPE, stderr=subprocess.STDOUT, timeout=3600)
                out = rr.stdout.decode(errors="replace")
                m = re.search(r"^---- (.*)$", out, re.M)
                entry[p] = {"exit": rr.returncode, "first": (m.group(1)[:400] if m else ""), "wall_s": round(time.time() - t0)}
                print(key, p, "exit", rr.returncode, (m.group(1)[:200] if m else ""), flush=True)
                if rr.returncode:
                    # keep the replay files of an alarm for triage
                    subprocess.run("mkdir -p %s/.build/neutral_alarm/%s_%s && cp -r %s/replays/%s %s/.build/neutral_alarm/%s_%s/ 2>/dev/null" % (VERIF, key.replace("/", "_"), p, VERIF, p, VERIF, key.replace("/", "_"), p), shell=True)
        finally:
            subprocess.run("git -C /repo checkout -- .", shell=True)
            subprocess.run("rm -f %s/replays/*/found-* %s/replays/*/crash-* %s/replays/*/compile-*; rm -f %s/replays/C11/*/crash-* %s/replays/C11/*/leak-*" % ((VERIF,) * 5), shell=True)
        results[key] = entry
        json.dump(results, open(rj, "w"), indent=1)
lines = ["# Neutral refactorings: no check may raise an alarm", "", "| change | checks run | alarms |", "|---|---|---|"]
for k in sorted(results):
    e = results[k]
    if "error" in e:
        lines.append("| %s | - | %s |" % (k, e["error"][:100]))
        continue
    al = [p for p, c in e.items() if c["exit"]]
    lines.append("| %s | %s | %s |" % (k, " ".join(sorted(e)), "none" if not al else "; ".join("%s: %s" % (p, e[p]["first"][:120].replace("|", "/")) for p in al)))
open(os.path.join(VERIF, "neutral", "RESULTS.md"), "w").write("\n".join(lines) + "\n")
print("written neutral/RESULTS.md")
