#!/bin/bash
# usage: c11_triage.sh <fmt 0..5> [tier]   -- rebuilds the structured C11 harness for one format, runs it, prints the first crash
f=$1; tier=${2:-quick}
cd /verif/harness && NERR=6 ../tools/ccio.sh c11_io_robustness.cpp /verif/.build/c11/c11_f$f -DC11_FMT=$f -DVERIF_TARGET_NAME="\"c11_mut_f$f\"" || exit 1
cd /verif/.build/c11 && rm -f c11_mut_f$f.current_case.json c11_mut_f$f.evidence.json
VERIF_CASE_TIMEOUT=30 ASAN_OPTIONS=alloc_dealloc_mismatch=0:allocator_may_return_null=1:detect_leaks=0 UBSAN_OPTIONS=print_stacktrace=1 timeout 1800 ./c11_f$f run $tier ${SEED:-1} . - 16 > log$f 2>&1
echo "rc=$?"
grep -E "ERROR|SUMMARY|runtime error|WATCHDOG" log$f | cut -c1-260 | head -3
grep -E "^\s+#[0-9]+ " log$f | grep -v "c11_io_robustness\|libc\|_start\|rapidcheck\|verif::" | sed -E 's/boost::gil:://g; s/boost::mp11:://g; s/std::integral_constant<int, ([0-9])>/\1/g' | cut -c1-240 | head -${NFR:-8}
cat c11_mut_f$f.current_case.json 2>/dev/null | cut -c1-300; echo
python3 - <<PY
import json
try:
    d=json.load(open('/verif/.build/c11/c11_mut_f$f.evidence.json'))
    print(d['evaluations'], d['distinct_nontrivial'], len(d['failures']), d['classes'])
    for x in d['failures'][:2]: print(json.dumps(x['case']), x['msg'][:300])
except Exception as e: print('no evidence', e)
PY
