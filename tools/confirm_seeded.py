#!/usr/bin/env python3
"""Confirms seeded changes in ONE scratch worktree of /repo (outside /repo and /verif), one after the other:
   the patch applies to HEAD, the demonstration passes without it and fails with it, and the pinned ctest suite
   (132 tests) still passes with it.  Writes the outcome into seeded/<id>/meta.json ("confirmed").
   usage: confirm_seeded.py [--wt /tmp/wtc] [--keep] <id>...   (no ids: all)"""
import json, os, subprocess, sys, time

VERIF = os.path.dirname(os.path.dirname(os.path.abspath(__file__)))
args = sys.argv[1:]
wt = "/tmp/wtc"
keep = False
ids = []
while args:
    a = args.pop(0)
    if a == "--wt":
        wt = args.pop(0)
    elif a == "--keep":
        keep = True
    else:
        ids.append(a)
if not ids:
    ids = sorted(d for d in os.listdir(os.path.join(VERIF, "seeded")) if os.path.isdir(os.path.join(VERIF, "seeded", d)))


def sh(cmd, cwd=None, timeout=3600):
    try:
        r = subprocess.run(cmd, shell=True, cwd=cwd, stdout=subprocess.PIPE, stderr=subprocess.STDOUT, timeout=timeout)
        return r.returncode, r.stdout.decode(errors="replace")
    except subprocess.TimeoutExpired:
        return 124, "timeout"


head = subprocess.run("git -C /repo rev-parse --short HEAD", shell=True, stdout=subprocess.PIPE).stdout.decode().strip()
if not os.path.isdir(wt):
    rc, out = sh("git -C /repo worktree add --detach %s HEAD" % wt)
    if rc:
        sys.exit("cannot create worktree: " + out)
else:
    sh("git checkout -q --detach %s && git checkout -- ." % head, cwd=wt)
bdir = os.path.join(wt, "_build")
if not os.path.exists(os.path.join(bdir, "build.ninja")):
    rc, out = sh("cmake -S %s -B %s -G Ninja -DCMAKE_BUILD_TYPE=RelWithDebInfo -DCMAKE_CXX_FLAGS=-Wno-error -DCMAKE_CXX_STANDARD=14 -DBOOST_GIL_BUILD_EXAMPLES=OFF -DBOOST_GIL_BUILD_HEADER_TESTS=OFF" % (wt, bdir))
    if rc:
        sys.exit("cmake configure failed: " + out[-2000:])

DEMO = "clang++ -std=gnu++17 -g -O1 -fsanitize=address,undefined -fno-sanitize-recover=undefined -fno-sanitize=pointer-overflow -I%s/include %s -o %s -lpng -ljpeg -ltiffxx -ltiff -lz -pthread"
for i in ids:
    d = os.path.join(VERIF, "seeded", i)
    patch = os.path.join(d, "patch.diff")
    demo = os.path.join(d, "demo.cpp")
    res = {"head": head, "date": time.strftime("%Y-%m-%d %H:%M")}
    sh("git checkout -- .", cwd=wt)
    rc, out = sh("git apply --check %s" % patch, cwd=wt)
    res["applies"] = rc == 0
    if rc == 0:
        exe = os.path.join(wt, "demo_" + i)
        rc, out = sh(DEMO % (wt, demo, exe))
        if rc:
            res["demo_without"] = "build failed: " + out[-300:]
        else:
            rc, out = sh("ASAN_OPTIONS=detect_leaks=0 timeout 300 " + exe, cwd=wt)
            res["demo_without"] = "exit %d" % rc
        sh("git apply %s" % patch, cwd=wt)
        rc, out = sh(DEMO % (wt, demo, exe))
        if rc:
            res["demo_with"] = "build failed: " + out[-300:]
        else:
            rc, out = sh("ASAN_OPTIONS=detect_leaks=0 timeout 300 " + exe, cwd=wt)
            res["demo_with"] = "exit %d: %s" % (rc, " | ".join(out.strip().splitlines()[-2:])[:300])
        os.path.exists(exe) and os.remove(exe)
        rc, out = sh("cmake --build %s -j10" % bdir, timeout=7200)
        if rc:
            res["ctest_with"] = "build failed: " + out[-400:]
        else:
            rc, out = sh("ctest --test-dir %s -j8 --timeout 900" % bdir, timeout=7200)
            tail = [l for l in out.splitlines() if "tests passed" in l or "tests failed" in l]
            res["ctest_with"] = (tail[-1].strip() if tail else out[-200:])
        sh("git checkout -- .", cwd=wt)
    ok = res.get("applies") and res.get("demo_without") == "exit 0" and res.get("demo_with", "exit 0").startswith("exit") and not res["demo_with"].startswith("exit 0") and "100% tests passed" in res.get("ctest_with", "") and "132" in res.get("ctest_with", "")
    res["ok"] = bool(ok)
    m = json.load(open(os.path.join(d, "meta.json")))
    m["confirmed"] = res
    json.dump(m, open(os.path.join(d, "meta.json"), "w"), indent=1)
    print(i, json.dumps(res), flush=True)
if not keep:
    sh("git -C /repo worktree remove --force %s" % wt)
