#!/bin/bash
# usage: mutant_tree.sh <patch.diff> <dest-dir>   -> creates <dest-dir>/include = /repo/include + patch (scratch, outside /repo and /verif)
set -e
rm -rf "$2"; mkdir -p "$2"; cp -r /repo/include "$2/include"
patch -s -p1 -d "$2" < "$1"
echo "mutant tree at $2"
